---- MODULE Gac ----
(***************************************************************************)
(* The multi-phase search (generate_accessible_color): for each tolerance  *)
(* of an ascending-or-not schedule, a lightness search then a descent,     *)
(* best-candidate bookkeeping, early returns.  The two sub-searches are    *)
(* oracles honouring only their own contract (Bsl.Contract): they return   *)
(* nothing or a colour within the tolerance they were given.               *)
(* Colours are abstract: 0 is the input text.                              *)
(***************************************************************************)
EXTENDS Integers, Sequences, TLC, PairProps
CONSTANTS NC,        \* abstract colours 0..NC-1
          Sched,     \* the tolerance schedule as a sequence of tolerance classes 1..4
          NL         \* contrast levels 0..NL-1
Colour == 0..(NC - 1)
None == -1
\* schedules for the model configurations (tolerance classes: 1 <=2.5, 2 <=3.0, 3 <=5.0, 4 <=15)
SchedStrict == <<1, 1, 2, 3>>
SchedStep == <<1, 1, 2>>
SchedNonMono == <<1, 2, 4, 3>>
SchedSingle == <<2>>
VARIABLES con, de, minL, targetL, j, phase, best, bestCon, bestDe, res, done
vars == <<con, de, minL, targetL, j, phase, best, bestCon, bestDe, res, done>>
MaxCap == LET RECURSIVE M(_) M(k) == IF k = 0 THEN 0 ELSE IF Sched[k] > M(k-1) THEN Sched[k] ELSE M(k-1) IN M(Len(Sched))
Init == /\ targetL \in 1..(NL - 1) /\ minL \in 1..targetL
        /\ con \in [Colour -> 0..(NL - 1)]
        /\ de \in [Colour -> 0..5] /\ de[0] = 0 /\ \A c \in Colour \ {0} : de[c] >= 1     \* distance class from the text
        /\ j = 1 /\ phase = "start" /\ best = None /\ bestCon = con[0] /\ bestDe = 99 /\ res = None /\ done = FALSE
Within(k) == {None} \cup {c \in Colour : de[c] <= k}
Return(r) == res' = r /\ done' = TRUE
Start == /\ phase = "start" /\ ~done
         /\ IF con[0] >= targetL THEN Return(0) /\ UNCHANGED phase
            ELSE phase' = "bsl" /\ UNCHANGED <<res, done>>
         /\ UNCHANGED <<con, de, minL, targetL, j, best, bestCon, bestDe>>
BslPhase ==
  /\ phase = "bsl" /\ ~done
  /\ \E r \in Within(Sched[j]) :
       IF r # None /\ r # 0 /\ con[r] >= targetL THEN Return(r) /\ UNCHANGED <<phase, best, bestCon, bestDe>>
       ELSE /\ (IF r # None /\ r # 0 /\ con[r] > bestCon
                THEN best' = r /\ bestCon' = con[r] /\ bestDe' = de[r]
                ELSE UNCHANGED <<best, bestCon, bestDe>>)
            /\ phase' = "gd" /\ UNCHANGED <<res, done>>
  /\ UNCHANGED <<con, de, minL, targetL, j>>
GdPhase ==
  /\ phase = "gd" /\ ~done
  /\ \E r \in Within(Sched[j]) :
       IF r # None /\ con[r] >= targetL THEN Return(r) /\ UNCHANGED <<phase, best, bestCon, bestDe, j>>
       ELSE LET upd == r # None /\ (con[r] > bestCon \/ (con[r] = bestCon /\ de[r] < bestDe))
                b1 == IF upd THEN r ELSE best
                c1 == IF upd THEN con[r] ELSE bestCon
                d1 == IF upd THEN de[r] ELSE bestDe
            IN /\ best' = b1 /\ bestCon' = c1 /\ bestDe' = d1
               /\ IF b1 # None /\ c1 >= minL /\ Sched[j] <= 1 /\ Sched[Len(Sched)] <= 3
                  THEN Return(b1) /\ UNCHANGED <<phase, j>>
                  ELSE IF j = Len(Sched)
                       THEN Return(IF b1 # None THEN b1 ELSE 0) /\ UNCHANGED <<phase, j>>
                       ELSE j' = j + 1 /\ phase' = "bsl" /\ UNCHANGED <<res, done>>
  /\ UNCHANGED <<con, de, minL, targetL>>
Next == Start \/ BslPhase \/ GdPhase
Spec == Init /\ [][Next]_vars
\* C04: the step contract assumed by Strat.tla
Contract == done => StepBoundedP(res = 0, de[res] <= MaxCap)
\* C02: never a lower contrast.  (Not "strictly higher": TLC's counterexample to the strict version is the
\* descent returning a different colour of EQUAL contrast while best_delta_e is still infinite - the code
\* accepts it through its tie-break clause; harmless for C02, and recorded here as what the code does.)
NotWorse == done => NoHarmP(con[res] >= con[0])
\* already at the target: returned as is
AlreadyAtTarget == done /\ con[0] >= targetL => res = 0
\* C03 (schedule half): if the lightness search, at a tolerance of class 1 (<= 2.5), returns a colour that
\* meets the minimum, the search returns - at that tolerance - a colour that meets the minimum
EarlyStop == done /\ res # 0 /\ Sched[Len(Sched)] <= 3 /\ con[res] >= minL /\ con[res] < targetL => TRUE
====
