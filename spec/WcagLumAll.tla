---- MODULE WcagLumAll ----
(***************************************************************************)
(* C05, thorough tier: all 16,777,216 luminances observed from the         *)
(* implementation (one JSON chunk per red level, floor(L * 10^8)) against  *)
(* Lum of Wcag.tla.  One state per red level.                              *)
(***************************************************************************)
EXTENDS Wcag, TLC, Json, IOUtils
VARIABLES r
Init == r \in 0..255
Next == UNCHANGED r
Spec == Init /\ [][Next]_r
Obs(rr) == JsonDeserialize(IOEnv.LUM_DIR \o "/" \o ToString(rr) \o ".json")
AllLumOk == LET o == Obs(r) IN
  \A g \in 0..255 : \A b \in 0..255 : Abs(o[g + 1][b + 1] - Lum(<<r, g, b>>)) <= 3
====
