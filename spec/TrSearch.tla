---- MODULE TrSearch ----
(***************************************************************************)
(* C04, direct calls of the documented search routines with arbitrary      *)
(* (text, background, tolerance / schedule, target) arguments: each call   *)
(* returns nothing / its input, or a valid 8-bit colour within the largest *)
(* tolerance it was given (StepBoundedP, the contract Bsl/Gac prove and    *)
(* Strat assumes).  dE in 1e-4 units from the reference CIEDE2000.         *)
(***************************************************************************)
EXTENDS Integers, Sequences, PairProps, TraceKit, Fixed

VARIABLES tid, i, fails, incon, nt
vars == <<tid, i, fails, incon, nt>>
Guard == 10
Init == tid \in 1..NTraces /\ i = 1 /\ fails = {} /\ incon = {} /\ nt = 0
Ev == Traces[tid][i]

CallFails(e) ==
  IF e.raised # "" THEN {"C04_SearchRaised"}
  ELSE IF e.none THEN (IF e.fn = "gac" THEN {"C04_GacReturnedNothing"} ELSE {})
  ELSE IF ~e.outValid THEN {"C04_SearchNotAColour"}
  ELSE IF ~StepBoundedP(e.out = e["in"], e.de4 <= e.cap4 + Guard) THEN {"C04_SearchBounded"}
  ELSE {}
CallIncon(e) ==
  IF e.raised = "" /\ ~e.none /\ e.outValid /\ e.out # e["in"] /\ e.de4 > e.cap4 - Guard /\ e.de4 <= e.cap4 + Guard
  THEN {"C04_SearchBounded"} ELSE {}

Call == /\ i <= Len(Traces[tid])
        /\ fails' = fails \cup CallFails(Ev) /\ incon' = incon \cup CallIncon(Ev)
        /\ nt' = nt + (IF Ev.raised = "" /\ ~Ev.none /\ Ev.outValid /\ Ev.out # Ev["in"] THEN 1 ELSE 0)
        /\ i' = i + 1 /\ UNCHANGED tid
Finish == /\ i = Len(Traces[tid]) + 1 /\ KitFinish(tid, fails, incon) /\ KitCount("search_changed", nt)
          /\ i' = i + 1 /\ UNCHANGED <<tid, fails, incon, nt>>
Next == Call \/ Finish
Spec == Init /\ [][Next]_vars
====
