"""CLI side of the harness (C08, C09, C18): abstract stylesheets -> CSS text, running the real cm-colors command,
and abstracting its observables (stdout summary, HTML report cards, written *_cm.css) back into integers for TLC.

tinycss2 is used as the trusted CSS tokenizer on both sides of every comparison; html.parser as the HTML tokenizer.
"""
import os, sys, re, json, random, hashlib, shutil, tempfile, io
from html.parser import HTMLParser
sys.path.insert(0, os.path.dirname(os.path.abspath(__file__)))
import vlib, refs, pairs

import tinycss2
from tinycss2 import ast as A

# ----------------------------------------------------------------------------- abstract sheets

SPELL_LIT = ["hex6", "hex3", "hexupper", "rgbfn", "rgbpct", "hslfn", "named", "rgbafn", "hslafn"]


def lit(c, rnd, kinds=SPELL_LIT):
    k = rnd.choice(kinds)
    if k == "hex3":
        c = tuple((v // 17) * 17 for v in c)
    s = pairs.spell(c, k, rnd)
    return ("lit", s)


class Gen:
    """seeded grammar of stylesheets whose abstract tree is known by construction"""

    def __init__(self, rnd, nrules=8, depth=2, f_known=0.0, carry=True, nvars=3, bgvars=True, translucent=True):
        self.rnd = rnd
        self.n = 0
        self.nrules = nrules
        self.depth = depth
        self.f_known = f_known      # probability of constructs in a known-finding input class (F4/F5/F6)
        self.carry = carry
        self.nvars = nvars
        self.use_bgvars = bgvars
        self.kinds = SPELL_LIT if translucent else [k for k in SPELL_LIT if k not in ("rgbafn", "hslafn")]

    def colour_for(self, cls, bg):
        """a text colour of an outcome class against bg: 'ok' (readable even at 7), 'fix' (just below 4.5), 'hard'"""
        rnd = self.rnd
        for _ in range(300):
            if cls == "ok":
                c = rnd.choice([(0, 0, 0), (255, 255, 255), pairs.rand_colour(rnd)])
                if refs.wcag_ratio(c, bg) >= 7.6:
                    return c
            elif cls == "fix":
                a, _b = pairs.near_threshold(rnd, 4.5, (0.03, 0.2))
                # re-aim at this bg: walk grey line
                c = a
                for k in range(256):
                    g = (k, k, k) if refs.wcag_lum(bg) > 0.2 else (255 - k, 255 - k, 255 - k)
                    r = refs.wcag_ratio(g, bg)
                    if 3.6 <= r <= 4.35:
                        c = tuple(min(255, max(0, v + rnd.randint(-6, 6))) for v in g)
                        if 3.3 <= refs.wcag_ratio(c, bg) <= 4.4:
                            return c
            elif cls == "hairline":
                # within 0.005 below (or just above) 4.5 or 7.0 against this very background
                t = rnd.choice((4.5, 7.0))
                up = refs.wcag_lum(bg) < 0.18
                centre = None
                for k in range(256):
                    g = k if up else 255 - k
                    if refs.wcag_ratio((g, g, g), bg) >= t:
                        centre = g
                        break
                if centre is None:
                    cls = "fix"
                    continue
                cand = []
                for dr in range(-5, 6):
                    for dg in range(-3, 4):
                        for db in range(-6, 7):
                            c = (centre + dr, centre + dg, centre + db)
                            if min(c) >= 0 and max(c) <= 255 and t - 0.005 <= refs.wcag_ratio(c, bg) < t + 0.002:
                                cand.append(c)
                if cand:
                    return rnd.choice(cand)
                cls = "fix"
            else:
                c = tuple(min(255, max(0, v + rnd.randint(-8, 8))) for v in bg)
                if refs.wcag_ratio(c, bg) < 1.3:
                    return c
        return (119, 119, 119)

    def sheet(self):
        rnd = self.rnd
        nodes = []
        vars_ = {}
        # custom properties: text-colour vars (each used by at most one rule unless f_known) and background vars
        # (half of the sheets: hyphenated names that extend one another, --c0 / --c0-soft / --c2 / --c2-soft ...: a name is the
        #  whole identifier, not its first word)
        hyph = rnd.random() < 0.5
        vnames = [(f"--c{k - 1}-soft" if hyph and k % 2 else f"--c{k}") for k in range(self.nvars)] + ([f"--bg{k}" for k in range(2)] if self.use_bgvars else [])
        bgvals = {}
        defs = []
        for k, nme in enumerate(vnames):
            if nme.startswith("--bg"):
                b = rnd.choice([(255, 255, 255), (250, 250, 240), (20, 20, 30), pairs.rand_colour(rnd)])
                bgvals[nme] = b
                defs.append((nme, lit(b, rnd, ["hex6", "rgbfn", "named"]) if False else ("lit", pairs.hexs(b))))
            else:
                defs.append((nme, None))   # filled when a rule takes it
        self.free_text_vars = [n for n in vnames if n.startswith("--c")]
        self.var_user_bg = {}
        self.bgvars = bgvals
        self.var_defs = dict(defs)
        body = self.block(self.nrules, 0)
        # any text var still undefined: 50% leave undefined, else some literal
        for nme in list(self.var_defs):
            if self.var_defs[nme] is None:
                if rnd.random() < 0.5:
                    self.var_defs[nme] = lit(pairs.rand_colour(rnd), rnd, self.kinds)
                else:
                    del self.var_defs[nme]
        # chain: occasionally define one var through another
        names = [n for n in self.var_defs if n.startswith("--c")]
        if len(names) >= 1 and rnd.random() < 0.35:
            a = rnd.choice(names)
            self.var_defs["--alias"] = ("var", a)
            # a rule that uses the alias, after the rules built so far (chains: the alias resolves through `a`)
            if rnd.random() < 0.7:
                self.n += 1
                bgc = rnd.choice([(34, 34, 34), (255, 255, 255), (20, 20, 60), (240, 240, 230)])
                if a in self.var_user_bg and rnd.random() < 0.7:
                    # opposite polarity to the rule that uses the aliased property directly: what is good for one
                    # background is worse for the other
                    bgc = rnd.choice([(20, 20, 20), (34, 34, 34)]) if refs.wcag_lum(self.var_user_bg[a]) > 0.3 else rnd.choice([(255, 255, 255), (245, 245, 240)])
                body.append({"t": "rule", "sel": ".al%d" % self.n, "text": ("var", "--alias"), "bg": ("lit", pairs.hexs(bgc)),
                             "extras": [], "imp": False, "dup": False, "comment": False})
        if rnd.random() < 0.3:
            names2 = [n for n in self.var_defs if n.startswith("--c")]
            tgt = rnd.choice(names2) if names2 else None
            self.n += 1
            if tgt and rnd.random() < 0.5:
                # defined through the fallback of an undefined property (nested var() in the fallback)
                self.var_defs["--viafb"] = ("varfb", "--undefined-zz", f"var({tgt})")
                body.append({"t": "rule", "sel": ".vf%d" % self.n, "text": ("var", "--viafb"), "bg": None,
                             "extras": [], "imp": False, "dup": False, "comment": False})
            else:
                # a cycle closed through a fallback: unresolvable, the rule needs attention and stays as it is
                self.var_defs["--k1"] = ("varfb", "--user-ink", "var(--k2)")
                self.var_defs["--k2"] = ("var", "--k1")
                body.append({"t": "rule", "sel": ".cy%d" % self.n, "text": ("var", rnd.choice(["--k2", "--k1"])), "bg": None,
                             "extras": [], "imp": False, "dup": False, "comment": False})
        # custom property names are case-sensitive: a twin differing only by case is a different property
        twin = None
        if rnd.random() < 0.25:
            base = [n for n in self.var_defs if n.startswith("--c")]
            if base:
                b0 = rnd.choice(base)
                twin = "--C" + b0[3:]
                self.var_defs[twin] = ("lit", rnd.choice(["#000000", "#ffffff", "#123456", "#fedcba"]))
                self.n += 1
                body.append({"t": "rule", "sel": ".tw%d" % self.n, "text": ("var", rnd.choice([twin, b0])), "bg": ("lit", rnd.choice(["#ffffff", "#101010"])),
                             "extras": [], "imp": False, "dup": False, "comment": False})
        rootsel = rnd.choice([":root", "html"])
        all_defs = list(self.var_defs.items())
        second = None
        if len(all_defs) >= 2 and rnd.random() < 0.3:
            # the same selector twice: custom properties split over two blocks
            cut = rnd.randrange(1, len(all_defs))
            second = {"t": "vars", "sel": rootsel, "defs": all_defs[cut:], "color": None}
            all_defs = all_defs[:cut]
        root = {"t": "vars", "sel": rootsel, "defs": all_defs, "color": None}
        early = None
        if all_defs and rnd.random() < 0.25:
            # an EARLIER top-level block that defines some of the same properties with other values: the later definition is the
            # one in effect (and the one to re-tune)
            picks = rnd.sample(all_defs, min(len(all_defs), rnd.choice([1, 2])))
            early = {"t": "vars", "sel": rnd.choice([":root", "html"]), "defs": [(k_, ("lit", rnd.choice(["#fdfdfd", "#030303", "#7f8c8d"]))) for k_, _v in picks], "color": None}
        if rnd.random() < max(0.2, self.f_known * 0.5):      # a literal color directly in the :root/html rule (next to its custom properties)
            bg = (255, 255, 255)
            root["color"] = lit(self.colour_for(rnd.choice(["fix", "ok"]), bg), rnd, ["hex6", "rgbfn"])
        pos = rnd.choice([0, 0, len(body)]) if rnd.random() < 0.8 else rnd.randrange(len(body) + 1)
        nodes = body[:pos] + [root] + body[pos:]
        if second is not None:
            nodes.insert(rnd.randrange(len(nodes) + 1), second)
        if early is not None:
            nodes.insert(rnd.randrange(nodes.index(root) + 1), early)
        if rnd.random() < 0.15:
            # a :root block nested in an at-rule (its properties are not global; the tool must not confuse it with the top-level one)
            self.n += 1
            nodes.insert(rnd.randrange(len(nodes) + 1), {"t": "at", "kw": rnd.choice(["media", "supports"]), "prelude": rnd.choice(["print", "(display: grid)"]), "kids": [
                {"t": "vars", "sel": rootsel, "defs": [("--printonly", ("lit", rnd.choice(["#000000", "#8a8f98"])))], "color": None},
                # ... and a rule in the same block that uses it: not a document-wide property, so this colour does not resolve
                {"t": "rule", "sel": ".po%d" % self.n, "text": ("var", "--printonly"), "bg": None, "extras": [], "imp": False, "dup": False, "comment": False}]})
        if self.carry:
            nodes = self.sprinkle(nodes)
        return nodes

    def block(self, nrules, depth):
        rnd = self.rnd
        out = []
        k = 0
        while k < nrules:
            if depth < self.depth and nrules - k >= 2 and rnd.random() < 0.25:
                m = rnd.randrange(1, min(4, nrules - k) + 1)
                kw = rnd.choice(["media", "supports"])
                prel = rnd.choice(["screen and (min-width: 600px)", "print", "(prefers-color-scheme: dark)"]) if kw == "media" \
                    else rnd.choice(["(display: grid)", "not (display: grid)", "(color: red) and (display: flex)"])
                if rnd.random() < 0.2:
                    kw = rnd.choice([kw.upper(), kw.capitalize()])       # at-keywords are case-insensitive
                out.append({"t": "at", "kw": kw, "prelude": prel, "kids": self.block(m, depth + 1)})
                k += m
            else:
                out.append(self.rule())
                k += 1
        return out

    def rule(self):
        rnd = self.rnd
        self.n += 1
        sel = rnd.choice([".r%d", "a.r%d:hover", "#i%d > .r%d", ".r%d, .s%d", "div.r%d::before", ".r%d[data-x=\"a;b{}\"]", "ul li.r%d"])
        sel = sel.replace("%d", str(self.n))
        # background
        r = rnd.random()
        bgexpr = None
        bg = None
        if r < 0.45:
            bg = rnd.choice([(255, 255, 255), (0, 0, 0), (240, 240, 230), (30, 30, 60), pairs.rand_colour(rnd)])
            bgexpr = lit(bg, rnd, ["hex6", "hex3", "rgbfn", "named", "hslfn"])
            if bgexpr[0] == "lit":
                bg = None      # the parsed value decides (hex3/hsl/named round); resolved later by the API
        elif r < 0.55 and self.bgvars:
            nme = rnd.choice(sorted(self.bgvars))
            bgexpr = ("var", nme)
        # text colour
        cls = rnd.choice(["ok", "fix", "fix", "hard", "none", "invalid", "hairline"])
        base_bg = (255, 255, 255)
        textexpr = None
        if cls == "none":
            textexpr = None
        elif cls == "invalid":
            textexpr = ("lit", rnd.choice(["inherit", "currentcolor", "transparent", "notacolor", "rgb(1,2)", "#12345", "var(--undefined)", "12px", "url(x.png)"]))
        else:
            bgc = base_bg
            if bgexpr and bgexpr[0] == "var":
                bgc = self.bgvars[bgexpr[1]]
            elif bgexpr:
                rb = refs.css_read_opaque(bgexpr[1])
                bgc = rb if rb else base_bg
            c = self.colour_for(cls, bgc)
            form = rnd.random()
            if cls == "hairline":
                textexpr = lit(c, rnd, ["hex6", "rgbfn", "hexupper"])
            elif form < 0.6:
                textexpr = lit(c, rnd, self.kinds)
            elif form < 0.85 and self.free_text_vars:
                nme = self.free_text_vars.pop()
                self.var_defs[nme] = lit(c, rnd, ["hex6", "rgbfn", "hslfn", "named"])
                self.var_user_bg[nme] = bgc
                textexpr = ("var", nme)
                fbk = rnd.random()
                if fbk < 0.15:
                    # fallback forms: the property in effect is the OUTER one when it is defined; the fallback (a literal or
                    # another var(), itself defined and of a different colour) is not in effect and must stay as it is
                    self.var_defs["--fb%d" % self.n] = ("lit", rnd.choice(["#8a8a8a", "#000000", "#ffffff", "#777777"]))
                    textexpr = ("varfb", nme, "var(--fb%d)" % self.n if rnd.random() < 0.7 else "var( --fb%d , #123456 )" % self.n)
                elif fbk < 0.25:
                    textexpr = ("varfb", nme, rnd.choice(["#8a8a8a", "rgb(1, 2, 3)", "hsl(10, 20%, 30%)"]))
                elif fbk < 0.35:
                    # outer property undefined: the fallback - a var() that is defined - is what is in effect
                    textexpr = ("varfb", "--undef%d" % self.n, "var(%s)" % nme)
            elif rnd.random() < self.f_known:
                # F5 class: fallback form
                nme = rnd.choice(["--c0", "--nofb"])
                textexpr = ("varfb", nme, lit(c, rnd, ["hex6"])[1])
            elif rnd.random() < self.f_known and any(v is not None for k, v in self.var_defs.items() if k.startswith("--c")):
                # F6 class: share a text var already taken by another rule
                nme = rnd.choice([k for k, v in self.var_defs.items() if k.startswith("--c") and v is not None])
                textexpr = ("var", nme)
            else:
                textexpr = lit(c, rnd, self.kinds)
        extras = []
        for _ in range(rnd.randrange(0, 4)):
            extras.append(rnd.choice(["margin: 0 auto", "font: 12px/1.5 \"Helvetica Neue\", Arial", "border: 1px solid #ccc",
                                      "background: url(\"a;b{}.png\") no-repeat", "content: \"/* not a comment */ }\"",
                                      "-webkit-transition: color .2s ease", "width: calc(100% - 2 * var(--gap, 4px))",
                                      "outline-color: #abcdef", "padding: 0 0 0 1e1px", "font-family: \"caf\\e9\", serif",
                                      "transform: translate( -50% , -50% )", "unicode-range: U+0025-00FF",
                                      # vendor hacks that are NOT declarations by the grammar (star hack): carried through as they are
                                      "*zoom: 1", "*display: inline", "_height: 1%",
                                      # text that looks like syntax of the declaration being rewritten
                                      "content: \"!important\"", "background-image: url(img/!important.png)", "content: \"color: #777777;\"",
                                      # the background SHORTHAND with a plain colour: not the rule's background-color (the property's
                                      # definition of a rule's background: its own background-color, otherwise --default-bg)
                                      "background: #000", "background: #ffffff", "background: #1a1a1a", "background: black url(x.png)",
                                      # an at-rule inside the style rule's block (CSS Syntax 3 allows at-rules in declaration lists;
                                      # nested STYLE rules - `&:hover { }` - are beyond the tokenizer both sides use: observation F7)
                                      "@media (min-width: 40em) { margin: 0 2em; outline-color: #123456 }", "@supports (display: grid) { display: grid }"]))
        return {"t": "rule", "sel": sel, "text": textexpr, "bg": bgexpr, "extras": extras,
                "imp": rnd.random() < 0.15, "dup": rnd.random() < 0.15, "comment": rnd.random() < 0.3,
                "dupbg": bgexpr is not None and rnd.random() < 0.2,
                "samecolor": textexpr is not None and rnd.random() < 0.2}

    def sprinkle(self, nodes):
        rnd = self.rnd
        carry = ["/* header comment with { braces } and ; */", "@charset \"utf-8\";", "@import url(\"theme;v=1{}.css\") screen;",
                 "@font-face { font-family: \"X Y\"; src: url(x.woff2) format(\"woff2\"); unicode-range: U+0000-00FF }",
                 "@keyframes spin { from { transform: rotate(0deg) } to { transform: rotate(360deg) } }",
                 "@page :first { margin: 1in }", "@unknown-rule foo bar;", "@namespace svg url(http://www.w3.org/2000/svg);",
                 ".empty{}", ".nocolor { margin: 0; padding: 1px 2px }", "/* café ☃ */",
                 ".esc\\31 23 { width: 1px\\9 }", "<!-- .cdo { top: 0 } -->",
                 "/* separators \u2028 inside \x0b a \x85 comment \x1c */", ".sep::after { content: \"a\u2028b\x0bc\u2029d\x85e\x1d\" }",
                 ".uni\u2028x { margin: 0 }"]
        # blocks that LOOK like the document-wide ones but are not (:root / html with more to the selector): their custom
        # properties - the same names, other values - are theme overrides, not the definitions in effect
        names = [k for k in self.var_defs if k.startswith("--c") or k.startswith("--bg")]
        if names:
            for sel_ in ("html.dark", ":root[data-theme=\"dark\"]", "html body", ":root:not(.x)", "html > body", "HTML.no-js"):
                nm = rnd.choice(names)
                carry.append("%s { %s: %s; --unrelated-%d: 1px }" % (sel_, nm, rnd.choice(["#fefefe", "#020202", "rgb(1, 2, 3)"]), self.n))
        out = []
        first = True
        for n in nodes:
            if rnd.random() < 0.3:
                item = rnd.choice(carry)
                if item.startswith("@charset") and first and rnd.random() < 0.6:
                    # the stylesheet is UTF-8 whatever label it carries (the command reads and writes UTF-8)
                    item = "@charset \"%s\";" % rnd.choice(["windows-1252", "iso-8859-1", "shift_jis", "UTF-8", "us-ascii"])
                if item.startswith("@charset") and not first:
                    item = "/* c */"
                out.append({"t": "opaque", "css": item})
            out.append(n)
            first = False
        if rnd.random() < 0.4:
            out.append({"t": "opaque", "css": rnd.choice(carry[4:])})
        if rnd.random() < 0.2 and not (out and out[0]["t"] == "opaque" and out[0]["css"].startswith("@charset")):
            # a legacy @charset label left over in a stylesheet that is saved as UTF-8, with non-ASCII text further down
            out.insert(0, {"t": "opaque", "css": "@charset \"%s\";" % rnd.choice(["windows-1252", "iso-8859-1", "shift_jis", "koi8-r"])})
            out.append({"t": "opaque", "css": "/* \u00dcberschriften \u2013 caf\u00e9 \u2713 */ .na\u00efve::before { content: \"\u00ab\u00e9\u00bb \u2192 \u00fc\"; margin: 0 }"})
        return out


def expr_css(e):
    if e[0] == "lit":
        return e[1]
    if e[0] == "var":
        return f"var({e[1]})"
    return f"var({e[1]}, {e[2]})"


def render(nodes, rnd, indent=""):
    """abstract nodes -> CSS text (varied but insignificant whitespace)"""
    out = []
    nl = rnd.choice(["\n", "\n", "\r\n"]) if indent == "" else "\n"
    for n in nodes:
        if n["t"] == "opaque":
            out.append(indent + n["css"])
        elif n["t"] == "vars":
            decls = [f"{k}: {expr_css(v)}" for k, v in n["defs"]]
            if n["color"] is not None:
                decls.insert(rnd.randrange(len(decls) + 1), f"color: {expr_css(n['color'])}")
            out.append(indent + n["sel"] + " {" + "; ".join(decls) + (";" if rnd.random() < 0.5 else "") + "}")
        elif n["t"] == "at":
            out.append(indent + f"@{n['kw']} {n['prelude']} {{")
            out.append(render(n["kids"], rnd, indent + "  "))
            out.append(indent + "}")
        else:
            decls = list(n["extras"])
            imp = rnd.choice([" !important", " !important", "!important", " ! important", " !/* i */important", " ! IMPORTANT"]) if n["imp"] else ""
            # white space or a comment between a property name and its colon, and none after it, are all the same declaration
            colon = rnd.choice([": ", ": ", ": ", ":", " : ", "\n:", "/**/:", " :", " /* c */ : "]) if n.get("oddcolon", True) else ": "
            # (property names are ASCII case-insensitive: one rule in ten writes them in another letter case)
            pcase = rnd.choice([str.upper, str.title, str.capitalize]) if rnd.random() < 0.1 and n.get("oddcase", True) else (lambda x: x)
            if n["text"] is not None:
                if n["dup"]:
                    decls.insert(0, "color: #010203" + imp)      # an earlier declaration that the last one overrides
                decls.insert(rnd.randrange(len(decls) + 1) if not n["dup"] else len(decls), f"{pcase('color')}{colon}{expr_css(n['text'])}{imp}")
                if n.get("samecolor"):
                    # other properties whose name ends in "color", and a comment, carrying the very same value text
                    tv = expr_css(n["text"])
                    for extra in rnd.sample([f"border-color: {tv}", f"caret-color:{tv}", f"text-decoration-color: {tv}", f"/* was color: {tv} */",
                                             f"outline-color : {tv}", f"-webkit-text-fill-color: {tv}"], rnd.choice([1, 2])):
                        decls.insert(rnd.randrange(len(decls) + 1), extra)
            if n["bg"] is not None:
                pos_bg = rnd.randrange(len(decls) + 1)
                decls.insert(pos_bg, f"{pcase('background-color')}{colon if rnd.random() < 0.5 else ': '}{expr_css(n['bg'])}")
                if n.get("dupbg"):
                    # an earlier background-color declaration of the opposite polarity that the last one overrides
                    other = "#101010" if refs.wcag_lum(refs.css_read_opaque(expr_css(n["bg"])) or (255, 255, 255)) > 0.3 else "#fafafa"
                    decls.insert(rnd.randrange(pos_bg + 1), f"background-color: {other}")
            if n["comment"]:
                decls.insert(rnd.randrange(len(decls) + 1), "/* note: keep; this } comment */")
            body = []
            for d in decls:
                body.append(d if (d.startswith("/*") or d.rstrip().endswith("}")) else d + ";")
            if body and not body[-1].startswith("/*") and body[-1].endswith(";") and rnd.random() < 0.4:
                body[-1] = body[-1][:-1]
            sep = rnd.choice([" ", "\n" + indent + "  "])
            out.append(indent + n["sel"] + rnd.choice([" {", "{", " {\n"]) + sep.join(body) + rnd.choice(["}", " }", "\n" + indent + "}"]))
    return nl.join(out) + (nl if indent == "" else "")


# ----------------------------------------------------------------------------- expected semantics from the abstract tree

def walk_rules(nodes, path=()):
    """yield (rule_node, nesting_path, is_top_level)"""
    for n in nodes:
        if n["t"] == "at":
            yield from walk_rules(n["kids"], path + ((n["kw"], n["prelude"]),))
        elif n["t"] in ("rule", "vars"):
            yield n, path, path == ()


def var_table(nodes):
    tbl = {}
    for n in nodes:
        if n["t"] == "vars":
            for k, v in n["defs"]:
                tbl[k] = v
    return tbl


def resolve(e, tbl, seen=()):
    """CSS custom-property resolution of a colour expression -> CSS text or None"""
    if e is None:
        return None
    if e[0] == "lit":
        m = re.fullmatch(r"var\((--[\w-]+)\)", e[1])
        if m:
            return resolve(("var", m.group(1)), tbl, seen)
        m = re.fullmatch(r"var\((--[\w-]+)\s*,\s*(.*)\)", e[1], re.S)
        if m:
            return resolve(("varfb", m.group(1), m.group(2)), tbl, seen)
        return e[1]
    name = e[1]
    fb = ("lit", e[2]) if e[0] == "varfb" else None
    if name in seen:
        return resolve(fb, tbl, seen) if fb else None
    if name in tbl:
        r = resolve(tbl[name], tbl, seen + (name,))
        if r is not None:
            return r
    return resolve(fb, tbl, seen) if fb else None


def sel_key(text):
    # (a byte-order mark that was read as text and so sticks to the first selector is not part of the selector)
    text = text.replace("\ufeff", "")
    return _sel_key(text)


def _sel_key(text):
    return tinycss2.serialize(tinycss2.parse_component_value_list(text)).strip()


# ----------------------------------------------------------------------------- observables

class CardParser(HTMLParser):
    def __init__(self):
        super().__init__(convert_charrefs=True)
        self.cards = []
        self.stack = []
        self.cur = None
        self.field = None

    def handle_starttag(self, tag, attrs):
        a = dict(attrs)
        cls = a.get("class", "") or ""
        self.stack.append((tag, cls))
        if tag == "div" and cls == "card" and "style" not in a:
            self.cur = {"selector": "", "file": "", "codes": [], "badges": [], "styles": []}
            self.cards.append(self.cur)
        if self.cur is not None:
            if cls == "selector":
                self.field = "selector"
            elif cls == "file-info":
                self.field = "file"
            elif cls == "color-code":
                self.field = "code"
                self.cur["codes"].append("")
            elif cls.startswith("badge"):
                self.field = "badge"
                self.cur["badges"].append("")
            elif cls == "color-box":
                self.cur["styles"].append(a.get("style", ""))

    def handle_endtag(self, tag):
        if self.stack:
            self.stack.pop()
        self.field = None

    def handle_data(self, data):
        if self.cur is None or self.field is None:
            return
        if self.field == "selector":
            self.cur["selector"] += data
        elif self.field == "file":
            self.cur["file"] += data
        elif self.field == "code":
            self.cur["codes"][-1] += data
        elif self.field == "badge":
            self.cur["badges"][-1] += data


def parse_report(path):
    if not os.path.exists(path):
        return None
    p = CardParser()
    p.feed(open(path, encoding="utf-8").read())
    cards = []
    for c in p.cards:
        bg = ""
        if c["styles"]:
            m = re.search(r"background-color:\s*(.*?);\s*color:", c["styles"][0])
            bg = m.group(1).strip() if m else ""
        cards.append({"selector": c["selector"].replace("\ufeff", "").strip(), "file": c["file"].strip(), "bg": bg,
                      "before": c["codes"][0].strip() if c["codes"] else "", "after": c["codes"][1].strip() if len(c["codes"]) > 1 else "",
                      "levels": [b.strip() for b in c["badges"]]})
    return cards


def parse_stdout(text):
    def num(pat):
        m = re.search(pat, text)
        return int(m.group(1)) if m else 0
    res = {"processing": num(r"Processing (\d+) files"), "accessible": num(r"(\d+) color pairs already readable"),
           "tuned": num(r"(\d+) color pairs adjusted"), "failed": num(r"(\d+) color pairs need your attention"), "failedSel": []}
    m = re.search(r"Could not tune \d+ color pairs:\n(.*?)(?:\n\n|\Z)", text, re.S)
    if m:
        for line in m.group(1).splitlines():
            mm = re.match(r"  (.+?) -> (.*)$", line)
            if mm and not line.startswith("    "):
                res["failedSel"].append((mm.group(1), mm.group(2).replace("\ufeff", "").strip()))
    return res


def run_cli_child(root_path, args, cwd, env_extra):
    """the real command in a child interpreter with a given environment (e.g. the C locale without UTF-8 mode: the process's
    preferred encoding is then ASCII); console output is forced to UTF-8 so that only FILE handling is under test"""
    import subprocess
    env = dict(os.environ)
    env.update({"PYTHONPATH": os.path.join(vlib.REPO, "src"), "PYTHONIOENCODING": "utf-8:surrogateescape",
                "PYTHONDONTWRITEBYTECODE": "1"})
    env.update(env_extra)
    p = subprocess.run([sys.executable, "-c", "import sys; from cm_colors.cli.main import main; sys.argv[0] = 'cm-colors'; main()"] + ([root_path] if root_path is not None else []) + list(args),
                       cwd=cwd, env=env, capture_output=True, timeout=600)
    out = p.stdout.decode("utf-8", "replace")
    err = p.stderr.decode("utf-8", "replace")
    exc = ""
    if p.returncode not in (0, 1, 2) or "Traceback (most recent call last)" in err and "Error processing" not in err:
        exc = "child-exit-%d" % p.returncode
    return {"exit": p.returncode, "stdout": out, "stderr": err, "exception": exc}


def run_cli(root_path, args, cwd, env_extra=None):
    """the real command, in-process (click's CliRunner) with cwd as working directory"""
    if env_extra:
        return run_cli_child(root_path, args, cwd, env_extra)
    vlib.use_repo()
    from click.testing import CliRunner
    from cm_colors.cli.main import main as cli_main
    old = os.getcwd()
    os.chdir(cwd)
    try:
        try:
            runner = CliRunner(mix_stderr=False)
        except TypeError:
            runner = CliRunner()
        r = runner.invoke(cli_main, ([root_path] if root_path is not None else []) + list(args))
    finally:
        os.chdir(old)
    out = r.stdout if hasattr(r, "stdout") else r.output
    try:
        err = r.stderr
    except Exception:
        err = ""
    exc = "" if r.exception is None or isinstance(r.exception, SystemExit) else type(r.exception).__name__
    return {"exit": r.exit_code, "stdout": out, "stderr": err or "", "exception": exc}


def sha(path):
    try:
        with open(path, "rb") as f:
            return hashlib.sha256(f.read()).hexdigest()
    except OSError as ex:
        return "unreadable:" + type(ex).__name__


def listing(root):
    out = {}
    for d, dirs, files in os.walk(root, followlinks=False):
        for f in files:
            p = os.path.join(d, f)
            out[os.path.relpath(p, root)] = sha(p) if not os.path.islink(p) or os.path.exists(p) else "dangling"
        for dn in dirs:
            p = os.path.join(d, dn)
            if os.path.islink(p):
                out[os.path.relpath(p, root)] = "linkdir"
    return out


# ----------------------------------------------------------------------------- token-level abstraction of a stylesheet (C09)

class Ids:
    def __init__(self):
        self.d = {}

    def __call__(self, s):
        if s not in self.d:
            self.d[s] = len(self.d) + 1
        return self.d[s]


def norm_tokens(tokens):
    """whitespace-insensitive token-value normalisation of a component value list"""
    out = []
    for t in tokens:
        ty = t.type
        if ty == "whitespace":
            continue
        if ty == "comment":
            out.append(("comment", t.value))
        elif ty in ("ident", "at-keyword", "hash", "string", "url", "unicode-range"):
            out.append((ty, getattr(t, "value", None) if ty != "unicode-range" else (t.start, t.end)))
        elif ty == "literal":
            out.append(("lit", t.value))
        elif ty in ("number", "percentage"):
            out.append((ty, t.value, t.is_integer))
        elif ty == "dimension":
            out.append((ty, t.value, t.is_integer, t.lower_unit))
        elif ty in ("() block", "[] block", "{} block"):
            out.append((ty, tuple(norm_tokens(t.content))))
        elif ty == "function":
            out.append((ty, t.lower_name, tuple(norm_tokens(t.arguments))))
        elif ty == "error":
            out.append(("error", t.kind))
        else:
            out.append((ty, tinycss2.serialize([t])))
    return tuple(out)


def flatten_sheet(css_text, ids):
    """stylesheet text -> flat list of items for SameExceptAdjusted (TLC):
    {"k": kind, "a": id, "b": id, "imp": bool, "rule": rule selector id or 0, "name": lower-case property name or ''}"""
    items = []

    def decls(content, rule_id):
        lst = tinycss2.parse_declaration_list(content, skip_whitespace=True, skip_comments=False)
        if any(d.type == "error" for d in lst):
            # something in the block is no declaration by the grammar (a star hack, say): the block is read piece by piece
            # (pieces end at top-level semicolons) and such a piece is carried as its own tokens
            lst, chunk = [], []
            for tok in list(content) + [None]:
                if tok is not None:
                    chunk.append(tok)
                if tok is None or (tok.type == "literal" and tok.value == ";"):
                    sub = tinycss2.parse_declaration_list(chunk, skip_whitespace=True, skip_comments=False)
                    if any(d.type == "error" for d in sub):
                        body = [x for x in chunk if not (x.type == "literal" and x.value == ";")]
                        items.append({"k": "declerror", "a": ids(("errtokens", norm_tokens(body))), "b": 0, "imp": False, "rule": rule_id, "name": ""})
                    else:
                        _emit(sub, rule_id)
                    chunk = []
            return
        _emit(lst, rule_id)

    def _emit(lst, rule_id):
        for d in lst:
            if d.type == "declaration":
                items.append({"k": "decl", "a": ids(("name", d.name)), "b": ids(("val", norm_tokens(d.value))), "imp": bool(d.important),
                              "rule": rule_id, "name": d.name if d.name.startswith("--") else ("color" if d.lower_name == "color" else "")})
            elif d.type == "comment":
                items.append({"k": "comment", "a": ids(("comment", d.value)), "b": 0, "imp": False, "rule": rule_id, "name": ""})
            elif d.type == "at-rule":
                items.append({"k": "nested-at", "a": ids(("at", d.lower_at_keyword, norm_tokens(d.prelude), norm_tokens(d.content or []))),
                              "b": 0, "imp": False, "rule": rule_id, "name": ""})
            elif d.type == "error":
                items.append({"k": "declerror", "a": ids(("err", d.kind)), "b": 0, "imp": False, "rule": rule_id, "name": ""})

    def rules(nodes):
        for n in nodes:
            if n.type == "whitespace":
                continue
            if n.type == "comment":
                items.append({"k": "comment", "a": ids(("comment", n.value)), "b": 0, "imp": False, "rule": 0, "name": ""})
            elif n.type == "qualified-rule":
                # (a byte-order mark read as text sticks to the first selector: not part of the rule's identity)
                # (only a mark at the very START of the selector - the file's own mark - is dropped; U+FEFF elsewhere is text)
                rid = ids(("sel", norm_tokens(tinycss2.parse_component_value_list(tinycss2.serialize(n.prelude).lstrip("\ufeff")))))
                items.append({"k": "open-rule", "a": rid, "b": 0, "imp": False, "rule": rid, "name": sel_key(tinycss2.serialize(n.prelude))})
                decls(n.content, rid)
                items.append({"k": "close", "a": rid, "b": 0, "imp": False, "rule": rid, "name": ""})
            elif n.type == "at-rule":
                if n.lower_at_keyword in ("media", "supports") and n.content is not None:
                    aid = ids(("at", n.lower_at_keyword, norm_tokens(n.prelude)))
                    items.append({"k": "open-at", "a": aid, "b": 0, "imp": False, "rule": 0, "name": ""})
                    rules(tinycss2.parse_rule_list(n.content, skip_whitespace=True, skip_comments=False))
                    items.append({"k": "close", "a": aid, "b": 0, "imp": False, "rule": 0, "name": ""})
                else:
                    items.append({"k": "at", "a": ids(("at", n.lower_at_keyword, norm_tokens(n.prelude))),
                                  "b": ids(("block", None if n.content is None else norm_tokens(n.content))), "imp": False, "rule": 0, "name": ""})
            elif n.type == "error":
                items.append({"k": "error", "a": ids(("err", n.kind)), "b": 0, "imp": False, "rule": 0, "name": ""})

    rules(tinycss2.parse_stylesheet(css_text, skip_whitespace=True, skip_comments=False))
    return items


def comment_audit(css_in, css_out):
    """C09: every comment of the input is in the output and none is added - counted on the raw token stream (all blocks and
    functions, recursively), independently of any declaration parser.  Returns (lost_known, lost_other, gained):
    lost_known = lost comments that sat where a declaration parser does not keep them (between a property name and its colon,
    between '!' and 'important') in a rule the tool re-serialises - a top-level :root / html block, or a rule whose own colour
    value differs in the output (known finding F12); lost_other = any other lost comment."""
    from collections import Counter

    def raw(tokens, acc):
        for t in tokens:
            if t.type == "comment":
                acc.append(t.value)
            elif t.type in ("() block", "[] block", "{} block"):
                raw(t.content, acc)
            elif t.type == "function":
                raw(t.arguments, acc)
        return acc

    cin = Counter(raw(tinycss2.parse_component_value_list(css_in), []))
    cout = Counter(raw(tinycss2.parse_component_value_list(css_out), []))
    lost, gained = cin - cout, cout - cin
    if not lost and not gained:
        return 0, 0, 0

    def rules(nodes, top):
        for n in nodes:
            if n.type == "qualified-rule":
                yield n, top
            elif n.type == "at-rule" and n.lower_at_keyword in ("media", "supports") and n.content is not None:
                yield from rules(tinycss2.parse_rule_list(n.content, skip_whitespace=True, skip_comments=False), False)

    def colour_values(rule):
        return [tinycss2.serialize(d.value).strip() for d in tinycss2.parse_declaration_list(rule.content, skip_whitespace=True, skip_comments=True)
                if d.type == "declaration" and d.lower_name == "color"]

    known = Counter()
    rin = list(rules(tinycss2.parse_stylesheet(css_in, skip_whitespace=True, skip_comments=False), True))
    rout = list(rules(tinycss2.parse_stylesheet(css_out, skip_whitespace=True, skip_comments=False), True))
    if len(rin) == len(rout):
        for (a, top), (b, _t) in zip(rin, rout):
            sel = tinycss2.serialize(a.prelude).strip().lstrip("\ufeff")
            if (top and sel in (":root", "html")) or colour_values(a) != colour_values(b):
                seen = Counter()
                for d in tinycss2.parse_declaration_list(a.content, skip_whitespace=True, skip_comments=False):
                    if d.type == "comment":
                        seen[d.value] += 1
                    elif d.type == "declaration":
                        seen.update(raw(d.value, []))
                    elif d.type == "at-rule":
                        seen.update(raw(d.prelude, []))
                        seen.update(raw(d.content or [], []))
                known += Counter(raw(a.content, [])) - seen
    lost_known = lost & known
    return sum(lost_known.values()), sum((lost - lost_known).values()), sum(gained.values())


def effective_colours(css_text, prop="color"):
    """selector -> effective text colour text in a stylesheet (last color declaration, custom properties from
    top-level :root/html blocks, var() with fallbacks), via tinycss2"""
    sheet = tinycss2.parse_stylesheet(css_text, skip_whitespace=True, skip_comments=True)
    tbl = {}
    for n in sheet:
        if n.type == "qualified-rule" and sel_key(tinycss2.serialize(n.prelude)) in (":root", "html"):
            for d in tinycss2.parse_declaration_list(n.content, skip_whitespace=True, skip_comments=True):
                if d.type == "declaration" and d.name.startswith("--"):
                    tbl[d.name] = ("lit", tinycss2.serialize(d.value).strip())
    out = {}

    def parse_expr(text):
        m = re.fullmatch(r"var\(\s*(--[\w-]+)\s*(?:,\s*(.*))?\)", text.strip(), re.S)
        if not m:
            return ("lit", text.strip())
        if m.group(2) is not None:
            return ("varfb", m.group(1), m.group(2).strip())
        return ("var", m.group(1))

    def res(e, seen=()):
        if e[0] == "lit":
            e2 = parse_expr(e[1])
            if e2[0] == "lit":
                return e2[1]
            return res(e2, seen)
        name = e[1]
        fb = e[2] if e[0] == "varfb" else None
        if name not in seen and name in tbl:
            r = res(tbl[name], seen + (name,))
            if r is not None:
                return r
        return res(("lit", fb), seen) if fb is not None else None

    def walk(nodes):
        for n in nodes:
            if n.type == "qualified-rule":
                col = None
                for d in tinycss2.parse_declaration_list(n.content, skip_whitespace=True, skip_comments=True):
                    if d.type == "declaration" and d.lower_name == prop:
                        col = tinycss2.serialize(d.value).strip()
                if col is not None:
                    out[sel_key(tinycss2.serialize(n.prelude))] = res(("lit", col))
            elif n.type == "at-rule" and n.lower_at_keyword in ("media", "supports") and n.content is not None:
                walk(tinycss2.parse_rule_list(n.content, skip_whitespace=True, skip_comments=True))

    walk(sheet)
    return out


def compact_sheet(n, rnd):
    """minified stylesheet of n rules, every colour a six-digit hex literal and no space anywhere: re-serialising a rule
    changes no length, so two runs with different settings write files of exactly the same size.  Mid-dark greys read well on
    white and fail on black, mid-light ones the other way round; some rules carry their own background."""
    nodes = []
    for k in range(n):
        kind = rnd.random()
        g = rnd.randrange(70, 112) if kind < 0.45 else rnd.randrange(150, 200) if kind < 0.9 else rnd.randrange(118, 135)
        c = (g, min(255, g + rnd.choice([0, 0, 3])), g)
        bg = None if rnd.random() < 0.8 else ("lit", rnd.choice(["#ffffff", "#000000", "#101820"]))
        nodes.append({"t": "rule", "sel": ".k%d" % k, "text": ("lit", pairs.hexs(c)), "bg": bg, "extras": rnd.choice([[], ["margin:0"]]),
                      "imp": False, "dup": False, "comment": False})
    out = []
    for nd in nodes:
        decls = list(nd["extras"]) + ["color:" + nd["text"][1]] + (["background-color:" + nd["bg"][1]] if nd["bg"] else [])
        out.append(nd["sel"] + "{" + ";".join(decls) + "}")
    # statements a minifier leaves in front, glued to the first rule (no white space after the semicolon)
    prefix = rnd.choice(["", "@charset \"iso-8859-1\";", "@charset \"utf-8\";", "@import url(x.css);", "@charset \"windows-1252\";@import \"a.css\";",
                         "@charset \"shift_jis\";", "@namespace svg url(http://www.w3.org/2000/svg);"])
    return nodes, prefix + "".join(out)


def positional_sheet(k1, k2, k3, minified, rnd):
    """k1 filler rules, an @media block with k2 fillers and then a target rule, k3 fillers, then an html rule that declares a
    failing colour directly (plus a custom property used by the nested target); positions matter to index-based bookkeeping"""
    def filler(n):
        return {"t": "rule", "sel": ".f%d" % n, "text": ("lit", rnd.choice(["#000000", "#111111", "#222222"])), "bg": ("lit", "#ffffff"),
                "extras": ["margin: 0"], "imp": False, "dup": False, "comment": False}
    n = 0
    nodes = []
    for _ in range(k1):
        n += 1; nodes.append(filler(n))
    kids = []
    for _ in range(k2):
        n += 1; kids.append(filler(n))
    kids.append({"t": "rule", "sel": ".note", "text": ("lit", "#777777"), "bg": None, "extras": ["margin: 1em", "content: \"x\"", "border: 1px solid #ccc"],
                 "imp": False, "dup": False, "comment": False})
    nodes.append({"t": "at", "kw": rnd.choice(["media", "supports"]), "prelude": "print" , "kids": kids})
    for _ in range(k3):
        n += 1; nodes.append(filler(n))
    nodes.append({"t": "vars", "sel": rnd.choice(["html", ":root"]), "defs": [("--c0", ("lit", "#808080"))], "color": ("lit", "#888888")})
    css = render(nodes, rnd)
    if minified:
        css = re.sub(r"\s*\n\s*", "", css)
        css = re.sub(r"\s*([{};])\s*", r"\1", css)
    return nodes, css
