"""C07 - CSS colour values parse to the colour CSS defines.

Spec: CssColor.tla (+ generated CssNamed.tla) is the definition in exact integer arithmetic.
The harness renders abstract values (digits, keyword, integer/percent components, H/S/L, alpha, background)
into concrete CSS strings in several equivalent spellings, feeds them to the real parser
(parse_color_to_rgb and Color(...).rgb), and TLC judges each observation against the definition
(TrCss.tla for event lists, CssGrid.tla for whole planes).
"""
import os, sys, json, random, shutil, re
sys.path.insert(0, os.path.dirname(os.path.abspath(__file__)))
import vlib, refs

PID = "C07"
HEX = "0123456789abcdef"


def tenths(v):
    return str(v // 10) if v % 10 == 0 else f"{v // 10}.{v % 10}"


def case_variant(s, k):
    if k % 4 == 0:
        return s
    if k % 4 == 1:
        return s.upper()
    if k % 4 == 2:
        return s.title() if s.isalpha() else "".join(ch.upper() if i % 2 else ch for i, ch in enumerate(s))
    return "".join(ch.upper() if i % 3 == 0 else ch for i, ch in enumerate(s))


def fn_variant(name, args, k):
    """functional notation with optional whitespace at every permitted position and letter case variants."""
    if k % 29 == 6:
        return f"\f{name}(\f{', '.join(args)}\f)\f"                  # form feed is CSS white space, too
    if k % 31 == 7:
        pad = " " * 45
        return f"{name}({pad}{(',' + pad).join(args)}{pad})"           # any AMOUNT of white space
    k = k % 6
    if k == 0:
        return f"{name}({', '.join(args)})"
    if k == 1:
        return f"{name}({','.join(args)})"
    if k == 2:
        return f"{name.upper()}( {' , '.join(args)} )"
    if k == 3:
        return f"  {name}({', '.join(args)})  "
    if k == 4:
        return f"{name.capitalize()}(\t{',  '.join(args)}\n)"
    return f"\n{name}({' ,'.join(args)} )\t"


def pack(c):
    return c[0] * 65536 + c[1] * 256 + c[2]


def parse(value, background=None):
    """the library's parser on one value -> list[int] or [] when it refuses / returns a non-colour"""
    try:
        if background is None:
            r = _P(value)
        else:
            r = _P(value, background)
    except Exception:
        return []
    if isinstance(r, (tuple, list)) and len(r) == 3 and all(isinstance(x, int) and not isinstance(x, bool) and 0 <= x <= 255 for x in r):
        return list(r)
    return []


_P = None


def _init():
    global _P, _Color
    vlib.use_repo()
    from cm_colors.core.color_parser import parse_color_to_rgb
    from cm_colors import Color
    _P = parse_color_to_rgb
    _Color = Color


def via_color(value, bg=None):
    try:
        if bg is None:
            c = _Color(value)
        else:
            c = _Color(value, background_context=_Color(bg))
        r = c.rgb
    except Exception:
        return []
    if c.is_valid and isinstance(r, (tuple, list)) and len(r) == 3 and all(isinstance(x, int) and 0 <= x <= 255 for x in r):
        return list(r)
    return []


def _named_rgb():
    return {nm: (int(v[1:3], 16), int(v[3:5], 16), int(v[5:7], 16)) for nm, v in refs._named().items()}


def bg_spellings(bg, k):
    """an opaque background colour written in the k-th of its equivalent CSS Color 3 spellings (the property's own
    equivalences: tuple/list of ints, #rrggbb / rrggbb in any case, #rgb / rgb when the digits pair up, rgb(), the keyword)"""
    r, g, b = bg
    h6 = "%02x%02x%02x" % bg
    sp = [tuple(bg), list(bg), "#" + h6, h6.upper(), f"rgb({r}, {g}, {b})", f"RGB({r},{g},{b})",
          f"rgba({r}, {g}, {b}, 1)", f"rgba({r},{g},{b},1.0)", (r, g, b, 1.0), [r, g, b, 1], f"rgb({r} {g} {b} / 100%)"]       # alpha 1: opaque
    if all(c % 17 == 0 for c in bg):
        h3 = "".join(HEX[c // 17] for c in bg)
        sp += ["#" + h3, h3 if h3 not in refs._named() else "#" + h3.upper(), h3.upper() if h3.upper().lower() not in refs._named() else "#" + h3]
    names = [nm for nm, v in sorted(_named_rgb().items()) if v == tuple(bg)]
    for nm in names:
        sp += [nm, nm.upper(), " " + nm.capitalize() + " "]
    return sp[k % len(sp)]


def both(value, k, bg=None):
    """alternate between the two observation points named by the property"""
    return via_color(value, bg) if k % 3 == 2 else parse(value, bg)


def events(t, rnd):
    _init()
    evs = []
    # history: before anything else, translucent colours over backgrounds that are NOT colours (refused, as they must be) - a refusal
    # must leave nothing behind for the thousands of composites that follow
    for bad_bg in ("notacolour", "rgb(1,2", (300, 0, 0), "", "hsl(", None):
        for txt0 in ("rgba(255, 0, 0, 0.5)", (10, 20, 30, 0.5), "hsla(120, 50%, 50%, 0.5)"):
            try:
                _P(txt0, bad_bg) if bad_bg is not None else _P(txt0)
            except Exception:
                pass
            via_color(txt0, bad_bg) if isinstance(bad_bg, str) and bad_bg else None
    # ---- three-digit hex: all 4096 x rotating case / '#' variants
    n = 0
    for d1 in range(16):
        for d2 in range(16):
            for d3 in range(16):
                s = HEX[d1] + HEX[d2] + HEX[d3]
                v = n % 4
                txt = ("#" + s, "#" + s.upper(), s, " #" + case_variant(s, 2) + " ")[v]
                if v == 2 and s.lower() in refs._named():
                    txt = "#" + s
                evs.append({"k": "hex3", "d": [d1, d2, d3], "obs": both(txt, n), "txt": txt})
                n += 1
    # ---- six-digit hex: per byte position all 256 values in 4 case patterns (others random)
    for pos in range(3):
        for v in range(256):
            for cv in range(4):
                b = [rnd.randrange(256) for _ in range(3)]
                b[pos] = v
                s = "%02x%02x%02x" % tuple(b)
                txt = ("#" + s, "#" + s.upper(), s, "#" + case_variant(s, 3))[cv]
                d = [int(ch, 16) for ch in s]
                evs.append({"k": "hex6", "d": d, "obs": both(txt, n), "txt": txt})
                n += 1
    # ---- keywords x case variants
    for name in sorted(refs._named()):
        for cv in range(4):
            txt = case_variant(name, cv)
            if cv == 3:
                txt = ("  " + txt + "\t") if len(name) % 2 else ("\f" + txt + "\f")
            evs.append({"k": "named", "name": name, "obs": both(txt, n), "txt": txt})
            n += 1
    # ---- rgb() integers: each channel through 0..255, random triples, spelling variants
    triples = []
    for pos in range(3):
        for v in range(256):
            b = [rnd.randrange(256) for _ in range(3)]
            b[pos] = v
            triples.append(tuple(b))
    triples += [(rnd.randrange(256), rnd.randrange(256), rnd.randrange(256)) for _ in range(1500 if t == "quick" else 30000)]
    def zpad(x, j):
        """a CSS number may carry leading zeros (0255, 007, +0012) - and a sign"""
        if j % 11 == 3:
            return str(x).zfill(rnd.choice([4, 5, 8]))
        if j % 11 == 7:
            return "+" + str(x).zfill(rnd.choice([3, 4]))
        if j % 997 == 5:
            return str(x).zfill(rnd.choice([4300, 4301, 5000, 20000]))       # thousands of leading zeros are still that number
        return str(x)
    for c in triples:
        txt = fn_variant("rgb", [zpad(x, n + q) for q, x in enumerate(c)], n)
        evs.append({"k": "rgbint", "v": list(c), "obs": both(txt, n), "txt": txt})
        n += 1
        if n % 5 == 0:
            val = tuple(c) if n % 2 else list(c)
            evs.append({"k": "tuple", "v": list(c), "obs": both(val, n), "txt": repr(val)})
    # ---- rgb() percentages in tenths: every value 0..100.0 per channel
    for pos in range(3):
        for p in range(0, 1001):
            q = [rnd.randrange(1001) for _ in range(3)]
            q[pos] = p
            txt = fn_variant("rgb", [("000" if (n + j_) % 13 == 5 else "") + tenths(x) + "%" for j_, x in enumerate(q)], n)
            evs.append({"k": "rgbpct", "p": q, "obs": both(txt, n), "txt": txt})
            n += 1
    # ---- rgb() percentages with five decimals a hair off every rounding tie (k + 0.5)/255: 2 and 1 hundred-thousandths of a
    #      percent on either side of (2k+1)*100/510, and random five-decimal values; the exact nearest byte is TLC's (PctChan5)
    ties = []
    for k in range(255):
        n5 = ((2 * k + 1) * 10 ** 7) // 510          # floor of the tie in units of 1e-5 percent
        for d in (-1, 0, 1, 2):
            if 0 <= n5 + d <= 10 ** 7:
                ties.append(n5 + d)
    def p5(nv):
        return "%d.%05d%%" % (nv // 100000, nv % 100000)
    sample = ties if t != "quick" else rnd.sample(ties, 400)
    for j, nv in enumerate(sample):
        q = [rnd.choice(ties), rnd.choice(ties), rnd.randrange(10 ** 7 + 1)]
        q[j % 3] = nv
        txt = fn_variant("rgb", [p5(x) for x in q], n)
        evs.append({"k": "rgbpct5", "p": q, "obs": both(txt, n), "txt": txt})
        n += 1
    # ---- hsl(): one-decimal S/L on a coarse hue grid + negative / >360 hues, spelling variants
    hs = list(range(-720, 1081, 37)) + [-360, -1, 0, 1, 359, 360, 361, 59, 60, 61, 119, 120, 121, 179, 180, 181, 239, 240, 241, 299, 300, 301]
    m = 6000 if t == "quick" else 150000
    for _ in range(m):
        h = rnd.choice(hs) if rnd.random() < 0.6 else rnd.randrange(-720, 1081)
        s10 = rnd.choice([0, 1000, 500, rnd.randrange(1001), rnd.randrange(1001)])
        l10 = rnd.choice([0, 1000, 500, rnd.randrange(1001), rnd.randrange(1001)])
        hh = str(h) if n % 7 else (f"+{h}" if h >= 0 else str(h))
        if n % 23 == 9:
            # the same hue written a huge whole number of turns away (exact integers here; a float reduction loses the last digits
            # from about 1e13 on - CSS numbers are not limited to what a double holds exactly, but integers below 2^53 are)
            turns = rnd.choice([10 ** 12, 10 ** 13, 27 * 10 ** 12, (2 ** 53 - 1) // 360 - 7])
            big = h + 360 * turns * rnd.choice([1, -1])
            if abs(big) < 2 ** 53:
                hh = str(big)
        # CSS numbers may carry a sign: +50%, +100%, -0% are the percentages 50, 100 and 0
        ss = ("+" if n % 9 == 4 else "-" if (s10 == 0 and n % 2) else "") + tenths(s10) + "%"
        ls = ("+" if n % 13 == 6 else "-" if (l10 == 0 and n % 2) else "") + tenths(l10) + "%"
        txt = fn_variant("hsl", [hh, ss, ls], n)
        evs.append({"k": "hsl", "h": h, "s": s10, "l": l10, "obs": both(txt, n), "txt": txt})
        n += 1
    # ---- translucent forms over white (default) and over explicit opaque backgrounds
    alphas = [0, 1, 10, 500, 990, 999, 1000] + [rnd.randrange(1001) for _ in range(8)]
    m = 2500 if t == "quick" else 60000
    for _ in range(m):
        an = rnd.choice(alphas)
        a_txt = {0: "0", 1000: "1"}.get(an, ("%.3f" % (an / 1000)).rstrip("0"))
        if n % 11 == 0 and an not in (0, 1000):
            a_txt = a_txt[1:] if a_txt.startswith("0.") else a_txt      # ".5"
        use_bg = rnd.random() < 0.7
        bg = (rnd.randrange(256), rnd.randrange(256), rnd.randrange(256)) if use_bg else (255, 255, 255)
        bg_arg = None if not use_bg else (bg if n % 2 else "#%02x%02x%02x" % bg)
        if n % 2:
            c = (rnd.randrange(256), rnd.randrange(256), rnd.randrange(256))
            txt = fn_variant("rgba", [str(x) for x in c] + [a_txt], n)
            evs.append({"k": "rgba", "v": list(c), "an": an, "ad": 1000, "bg": list(bg), "obs": both(txt, n, bg_arg),
                        "txt": txt, "bgarg": repr(bg_arg)})
        else:
            h, s10, l10 = rnd.randrange(-360, 721), rnd.randrange(1001), rnd.randrange(1001)
            txt = fn_variant("hsla", [str(h), tenths(s10) + "%", tenths(l10) + "%", a_txt], n)
            evs.append({"k": "hsla", "h": h, "s": s10, "l": l10, "an": an, "ad": 1000, "bg": list(bg),
                        "obs": both(txt, n, bg_arg), "txt": txt, "bgarg": repr(bg_arg)})
        n += 1
    # ---- hsl()/hsla() with more decimals than the grid, including very small non-zero values (e.g. 0.005%, hue 360.00005)
    def fine(x_int, scale, rnd_):
        """a decimal between grid points x_int and x_int+1 (in units of 1/scale of the printed unit); returns (text, lo, hi)"""
        frac = rnd_.choice(["5", "05", "005", "00005", "25", "999", "123456"])
        return frac
    for _ in range(800 if t == "quick" else 20000):
        h0 = rnd.choice([0, 359, 360, 59, 60, 119, 120, rnd.randrange(-360, 720)])
        s10 = rnd.choice([0, 0, 999, rnd.randrange(0, 1000)])
        l10 = rnd.choice([0, 499, 500, 999, rnd.randrange(0, 1000)])
        fh, fs, fl_ = fine(0, 0, rnd), fine(0, 0, rnd), fine(0, 0, rnd)
        # hue h0 + 0.<fh> degrees; saturation (s10 + 0.<fs>) tenths of a percent = s10/10 + 0.0<fs> percent
        htxt = (f"{h0}.{fh}" if h0 >= 0 else f"-{-h0 - 1}.{str(10 ** len(fh) - int(fh)).zfill(len(fh))}") if rnd.random() < 0.7 else str(h0)
        hl, hh = (h0, h0 + 1) if "." in htxt else (h0, h0)
        stxt = f"{s10 // 10}.{s10 % 10}{fs}%" if rnd.random() < 0.7 else tenths(s10) + "%"
        sl, sh = (s10, s10 + 1) if stxt.endswith(fs + "%") and stxt != tenths(s10) + "%" else (s10, s10)
        ltxt = f"{l10 // 10}.{l10 % 10}{fl_}%" if rnd.random() < 0.7 else tenths(l10) + "%"
        ll, lh = (l10, l10 + 1) if ltxt.endswith(fl_ + "%") and ltxt != tenths(l10) + "%" else (l10, l10)
        if n % 2:
            txt = fn_variant("hsl", [htxt, stxt, ltxt], n)
            evs.append({"k": "hslx", "hl": hl, "hh": hh, "sl": sl, "sh": sh, "ll": ll, "lh": lh, "obs": both(txt, n), "txt": txt})
        else:
            an = rnd.choice([250, 500, 1000, rnd.randrange(1, 1000)])
            a_txt = "1" if an == 1000 else ("%.3f" % (an / 1000)).rstrip("0")
            bg = (rnd.randrange(256), rnd.randrange(256), rnd.randrange(256))
            txt = fn_variant("hsla", [htxt, stxt, ltxt, a_txt], n)
            evs.append({"k": "hslax", "hl": hl, "hh": hh, "sl": sl, "sh": sh, "ll": ll, "lh": lh, "an": an, "ad": 1000, "bg": list(bg),
                        "obs": both(txt, n, bg), "txt": txt, "bgarg": repr(bg)})
        n += 1
    # ---- the same translucent text over several different backgrounds in sequence (history: any caching must
    #      not leak one background into the next), in all three translucent spellings
    for _ in range(40 if t == "quick" else 600):
        an = rnd.choice([250, 500, 800, rnd.randrange(1, 1000)])
        a_txt = ("%.3f" % (an / 1000)).rstrip("0")
        c = (rnd.randrange(256), rnd.randrange(256), rnd.randrange(256))
        h, s10, l10 = rnd.randrange(360), rnd.randrange(1001), rnd.randrange(1001)
        rg = fn_variant("rgba", [str(x) for x in c] + [a_txt], n)
        hg = fn_variant("hsla", [str(h), tenths(s10) + "%", tenths(l10) + "%", a_txt], n)
        tup = (c[0], c[1], c[2], an / 1000)
        bgs = [(0, 0, 0), (255, 255, 255)] + [(rnd.randrange(256), rnd.randrange(256), rnd.randrange(256)) for _ in range(3)]
        for bg in bgs + [bgs[0]]:
            bg_arg = bg if n % 2 else "#%02x%02x%02x" % bg
            evs.append({"k": "rgba", "v": list(c), "an": an, "ad": 1000, "bg": list(bg), "obs": both(rg, n, bg_arg),
                        "txt": rg, "bgarg": repr(bg_arg)})
            evs.append({"k": "hsla", "h": h, "s": s10, "l": l10, "an": an, "ad": 1000, "bg": list(bg),
                        "obs": both(hg, n, bg_arg), "txt": hg, "bgarg": repr(bg_arg)})
            evs.append({"k": "rgba", "v": list(c), "an": an, "ad": 1000, "bg": list(bg), "obs": both(tup, n, bg_arg),
                        "txt": repr(tup), "bgarg": repr(bg_arg)})
            n += 1
    # ---- translucent text over a background given in each of its equivalent spellings (keywords incl. the three-letter
    #      ones, #rgb / rgb, rrggbb without '#', rgb(), list): the composite must not depend on how the background is written
    named = sorted(_named_rgb().items())
    short = [nm for nm, _v in named if len(nm) <= 4]
    for j in range(300 if t == "quick" else 6000):
        an = rnd.choice([250, 500, 750, rnd.randrange(1, 1000)])
        a_txt = ("%.3f" % (an / 1000)).rstrip("0")
        pick = j % 4
        if pick == 0:
            bg = _named_rgb()[rnd.choice(short)]
        elif pick == 1:
            bg = tuple(rnd.choice(named)[1])
        elif pick == 2:
            bg = tuple(17 * rnd.randrange(16) for _ in range(3))
        else:
            bg = (rnd.randrange(256), rnd.randrange(256), rnd.randrange(256))
        c = (rnd.randrange(256), rnd.randrange(256), rnd.randrange(256))
        h, s10, l10 = rnd.randrange(360), rnd.randrange(1001), rnd.randrange(1001)
        rg = fn_variant("rgba", [str(x) for x in c] + [a_txt], n)
        hg = fn_variant("hsla", [str(h), tenths(s10) + "%", tenths(l10) + "%", a_txt], n)
        tup = (c[0], c[1], c[2], an / 1000)
        nsp = 11 + (3 if all(x % 17 == 0 for x in bg) else 0) + 3 * sum(1 for _nm, v in named if tuple(v) == bg)
        for k in (range(nsp) if j % 5 == 0 or t != "quick" else [rnd.randrange(nsp), rnd.randrange(nsp)]):
            bg_arg = bg_spellings(bg, k)
            evs.append({"k": "rgba", "v": list(c), "an": an, "ad": 1000, "bg": list(bg), "obs": both(rg, n, bg_arg),
                        "txt": rg, "bgarg": repr(bg_arg)})
            evs.append({"k": "hsla", "h": h, "s": s10, "l": l10, "an": an, "ad": 1000, "bg": list(bg),
                        "obs": both(hg, n + 1, bg_arg), "txt": hg, "bgarg": repr(bg_arg)})
            evs.append({"k": "rgba", "v": list(c), "an": an, "ad": 1000, "bg": list(bg), "obs": both(tup, n + 2, bg_arg),
                        "txt": repr(tup), "bgarg": repr(bg_arg)})
            n += 1
    # ---- calibration of the harness' own CSS reader against the same definition
    cal = []
    pool = [x for x in evs if x["k"] in ("hsl", "rgbpct", "hex3", "named") and (x["k"] != "hex3" or "#" in x["txt"])]
    for e in rnd.sample(pool, 1500 if t == "quick" else 20000):
        r = refs.css_parse(e["txt"])
        if r is None:
            cal.append(dict(e, k="ref", of=e["k"], lo=[-1, -1, -1], hi=[-1, -1, -1]))
        else:
            cal.append(dict(e, k="ref", of=e["k"], lo=[min(c) for c in r["chans"]], hi=[max(c) for c in r["chans"]]))
    return evs, cal


# --------------------------------------------------------------------------- planes

_GRID = None


def _hsl_plane(h):
    _init()
    rows = []
    for s in range(101):
        row = []
        for l in range(101):
            r = parse(f"hsl({h}, {s}%, {l}%)")
            row.append(pack(r) if r else -1)
        rows.append(row)
    with open(os.path.join(_GRID, f"hsl_{h}.json"), "w") as f:
        json.dump(rows, f, separators=(",", ":"))
    return h


def _hex_plane(r):
    _init()
    rows = []
    up = r % 2 == 1
    for g in range(256):
        row = []
        for b in range(256):
            s = "#%02x%02x%02x" % (r, g, b)
            o = parse(s.upper() if up else s)
            row.append(pack(o) if o else -1)
        rows.append(row)
    with open(os.path.join(_GRID, f"hex_{r}.json"), "w") as f:
        json.dump(rows, f, separators=(",", ":"))
    return r


def planes(rep, t, rnd):
    global _GRID
    _GRID = vlib.scratch("verif_grid_")
    try:
        if t == "quick":
            hues = sorted(set(list(range(0, 360, 7)) + [-120, -1, 359, 360, 481, 719, 60, 120, 180, 240, 300]))
            reds = sorted(rnd.sample(range(256), 6) + [0, 255])
        else:
            hues = list(range(-360, 720))      # every integer hue, once negative, once plain, once beyond 360
            reds = list(range(256))            # all 2^24 six-digit strings
        json.dump(hues, open(os.path.join(_GRID, "hues.json"), "w"))
        json.dump(sorted(set(reds)), open(os.path.join(_GRID, "reds.json"), "w"))
        vlib.pool_map(_hsl_plane, hues, chunksize=1)
        vlib.pool_map(_hex_plane, sorted(set(reds)), chunksize=1)
        cfg = "SPECIFICATION Spec\nINVARIANT HslPlaneOk\nINVARIANT HexPlaneOk\nCHECK_DEADLOCK FALSE\n"
        r = vlib.run_tlc("CssGrid", cfg, env={"GRID_DIR": _GRID}, workers=vlib.NCPU, heap="16g", timeout=7200,
                         extra=["-continue"], keep_stdout=400000)
        bad = re.findall(r"Invariant (\w+) is violated", r.stdout)
        if bad:
            # pinpoint: re-judge the planes named in the counterexamples event by event
            states = re.findall(r"/\\ kind = \"(\w+)\"\s*\n/\\ x = (-?\d+)|/\\ x = (-?\d+)\s*\n/\\ kind = \"(\w+)\"", r.stdout)
            seen = set()
            for a in states:
                kind, x = (a[0], a[1]) if a[0] else (a[3], a[2])
                seen.add((kind, int(x)))
            evs = []
            for kind, x in sorted(seen)[:3]:
                o = json.load(open(os.path.join(_GRID, f"{kind}_{x}.json")))
                if kind == "hsl":
                    for s in range(101):
                        for l in range(101):
                            p = o[s][l]
                            evs.append({"k": "hsl", "h": x, "s": 10 * s, "l": 10 * l, "txt": f"hsl({x}, {s}%, {l}%)",
                                        "obs": [] if p < 0 else [p >> 16, (p >> 8) & 255, p & 255]})
                else:
                    for g in range(256):
                        for b in range(256):
                            p = o[g][b]
                            s6 = "%02x%02x%02x" % (x, g, b)
                            evs.append({"k": "hex6", "d": [int(ch, 16) for ch in s6], "txt": "#" + s6,
                                        "obs": [] if p < 0 else [p >> 16, (p >> 8) & 255, p & 255]})
            judge(rep, evs, [])
            rep.states += r.distinct
            rep.transitions += r.generated
        else:
            rep.add_model(f"CssGrid({len(hues)} hue planes x 10,201, {len(set(reds))} hex planes x 65,536)", r,
                          "whole planes of observed parser results judged against CssColor.tla")
        rep.evaluations += len(hues) * 10201 + len(set(reds)) * 65536
        rep.extra["hsl_planes"] = len(hues)
        rep.extra["hex_planes"] = len(set(reds))
        if t == "thorough":
            rep.extra["all_six_digit_hex_exhaustive"] = True
            rep.extra["all_integer_hsl_grid_exhaustive"] = True
    finally:
        shutil.rmtree(_GRID, ignore_errors=True)


def judge(rep, evs, cal):
    B = 64
    allev = evs + cal
    traces = [allev[i:i + B] for i in range(0, len(allev), B)]
    agg = vlib.validate_traces("TrCss", traces)
    rep.add_traces(agg, len(traces))
    rep.evaluations += len(allev)
    hits, more = vlib.pinpoint("TrCss", traces, agg)
    for tid, j, fl in hits:
        e = traces[tid][j]
        if any(f.startswith("R_") for f in fl):
            raise vlib.MachineryError(f"harness CSS reader disagrees with CssColor.tla on {e.get('txt')!r}: {fl}")
        rep.violation("/".join(fl), {"input": e.get("txt"), "background": e.get("bgarg"), "observation": e, "clauses": fl,
                      "reproduce": f"cm_colors.core.color_parser.parse_color_to_rgb({e.get('txt')!r}) / Color(...).rgb"})
    if more:
        print(f"NOTE: {more} further failing batches not itemised")



# ----------------------------------------------------------------------------- refinement level: Parser.tla vs the real parser

def _concretise_elem(e):
    cls, m, pct = e["cls"], e["m"], e["pct"]
    if cls == "int":
        return m // 1000 if m >= 0 else -((-m) // 1000)
    if cls == "bool":
        return bool(m)
    if cls == "float":
        return m / 1000.0
    if cls == "none":
        return None
    if cls == "junk":
        return "abc"
    v = m / 1000.0
    txt = str(int(v)) if m % 1000 == 0 else repr(v)
    return txt + ("%" if pct else "")


def parser_refinement(rep, t, rnd):
    _init()
    r3, seqs3 = vlib.tlc_enumerate("Parser", "MC_Parser_len3.cfg", "sq")
    seqs = [s for s in seqs3 if len(s) == 3] + [s for s in seqs3 if len(s) in (0, 1, 2)][:60]
    r4, sims = vlib.tlc_simulate("Parser", "MC_Parser.cfg", 2500 if t == "quick" else 40000, 4, vlib.seed() + 5)
    for b in sims:
        if b and len(b[-1].get("sq", ())) == 4:
            seqs.append(b[-1]["sq"])
    rep.add_model("Parser.tla generator (all 3-sequences over 24 representative elements)", r3, "abstract tuple/list inputs replayed into the parser")
    rep.add_model("MC_Parser (all sequences of length <= 4)", vlib.check_model("Parser", "MC_Parser.cfg", timeout=900),
                  "transcription sanity: Total, ValidSetsSane, IntTripleIsItself") if t == "thorough" else None
    evs = []
    for k, sq in enumerate(seqs):
        elems = [dict(e) for e in sq]
        vals = [_concretise_elem(e) for e in elems]
        value = tuple(vals) if k % 2 else list(vals)
        bg = (255, 255, 255)
        bgarg = None
        if len(vals) == 4 and k % 3 == 0:
            bg = (rnd.randrange(256), rnd.randrange(256), rnd.randrange(256))
            bgarg = bg
        raised = ""
        try:
            obs = parse(value, bgarg) if k % 4 else via_color(value, "#%02x%02x%02x" % bg if bgarg else None)
        except Exception as ex:       # parse()/via_color() swallow library errors; this is for harness trouble only
            obs, raised = [], type(ex).__name__
        evs.append({"seq": elems, "bg": list(bg), "obs": obs, "raised": raised, "value": repr(value)})
    B = 64
    traces = [evs[i:i + B] for i in range(0, len(evs), B)]
    cfg = "SPECIFICATION TSpec\nPOSTCONDITION KitPost\nCHECK_DEADLOCK FALSE\n"
    agg = vlib.validate_traces("TrParser", traces, cfg=cfg)
    rep.states += agg["distinct"]
    rep.transitions += agg["generated"]
    drift = [b for b in agg["bad"] if any(x.startswith("D_") for x in b["incon"])]
    rep.extra["refinement_sequences_checked_against_Parser_tla"] = len(evs)
    if drift:
        singles, origin = [], []
        for b in drift[:20]:
            for j, e in enumerate(traces[b["tid"]]):
                singles.append([e]); origin.append((b["tid"], j))
        r2 = vlib.validate_traces("TrParser", singles, cfg=cfg)
        n = 0
        for b2 in r2["bad"]:
            tid, j = origin[b2["tid"]]
            rep.drift += 1
            n += 1
            if n <= 6:
                e = traces[tid][j]
                print(f"DRIFT module=Parser {b2['incon']} value={e['value']} bg={e['bg']} observed={e['obs']}")
    rep.extra["refinement_sequences_mismatching"] = rep.drift


def main():
    t = vlib.tier()
    rnd = random.Random(vlib.seed() * 15485863 + 7)
    rep = vlib.Report(PID)
    rep.assumptions = ["TLC/SANY", "tinycss2.color3 keyword table as the source of CssNamed.tla (independent of the library)",
                       "the harness renders abstract values into CSS text (f-strings in harness/c07.py)"]
    rep.rule = ("abstract CSS values (hex digits, keyword, rgb ints/percent tenths, hsl H/S/L, alpha, background) x equivalent "
                "spellings (case, whitespace, '#', sign); distinct = distinct concrete input text")
    rep.add_model("MC_CssColor", vlib.check_model("MC_CssColor", "MC_CssColor.cfg"),
                  "definition sanity: hue wrap identity, greys, primaries, black/white, admissible sets, compositing end points")
    evs, cal = events(t, rnd)
    judge(rep, evs, cal)
    rep.nontrivial = len({(e["txt"], e.get("bgarg")) for e in evs})
    rep.extra["events_by_kind"] = {k: sum(1 for e in evs if e["k"] == k) for k in sorted({e["k"] for e in evs})}
    rep.extra["cssref_calibration_events"] = len(cal)
    for k in ("hex3", "named", "rgbpct", "rgbpct5", "hsl", "rgba", "hsla"):
        s = next((e for e in evs if e["k"] == k), None)
        if s:
            rep.sample(s, cap=8)
    planes(rep, t, rnd)
    parser_refinement(rep, t, rnd)
    return rep.finish()


if __name__ == "__main__":
    vlib.main_wrapper(main)
