---- MODULE MC_CssColor ----
(***************************************************************************)
(* Design-level sanity of the CSS value definition over a grid:            *)
(* hue wrap identity, greys at S = 0, primaries, black/white at L = 0/1,   *)
(* admissible sets are 1 or 2 adjacent bytes, compositing end points.      *)
(***************************************************************************)
EXTENDS CssColor, TLC, FiniteSets
VARIABLES h, s, l
vars == <<h, s, l>>
Hs == {x \in -720..1080 : x % 7 = 0} \cup {-360, -1, 0, 1, 59, 60, 61, 119, 120, 121, 179, 180, 181, 239, 240, 241, 299, 300, 301, 359, 360, 361, 720}
Ts == {x \in 0..1000 : x % 50 = 0} \cup {1, 5, 333, 499, 501, 999}
Init == h \in Hs /\ s = -1 /\ l = -1
Next == s = -1 /\ s' \in Ts /\ l' \in Ts /\ UNCHANGED h
Spec == Init /\ [][Next]_vars
Ready == s >= 0
C == HslToRgb(h, s, l)
WrapIdentity == Ready => C = HslToRgb(h + 360, s, l) /\ C = HslToRgb(h - 360, s, l) /\ C = HslToRgb(Mod360(h), s, l)
SetsSane == Ready => \A k \in 1..3 : /\ C[k] # {} /\ C[k] \subseteq 0..255 /\ Cardinality(C[k]) <= 2
                                     /\ \A a, b \in C[k] : Abs(a - b) <= 1
GreyAtZeroSat == Ready /\ s = 0 => C[1] = C[2] /\ C[2] = C[3] /\ C[1] = RoundHalfSet(l * 255, 1000)
BlackWhite == Ready => (l = 0 => C = Exactly(<<0,0,0>>)) /\ (l = 1000 => C = Exactly(<<255,255,255>>))
Primaries == Ready /\ s = 1000 /\ l = 500 =>
   /\ (Mod360(h) = 0 => C = Exactly(<<255,0,0>>)) /\ (Mod360(h) = 120 => C = Exactly(<<0,255,0>>))
   /\ (Mod360(h) = 240 => C = Exactly(<<0,0,255>>)) /\ (Mod360(h) = 60 => C = Exactly(<<255,255,0>>))
   /\ (Mod360(h) = 180 => C = Exactly(<<0,255,255>>)) /\ (Mod360(h) = 300 => C = Exactly(<<255,0,255>>))
\* max/min channel of HSL: lightness is their mean: (max+min)/2 = L*255/1000 within rounding
MilliConsistent == Ready => \A k \in 1..3 : \A v \in C[k] : Abs(v * 1000 - HslMilli(h, s, l)[k]) <= 501
ASSUME CompositeEnds ==
   /\ \A v \in {0, 1, 127, 128, 254, 255}, b \in {0, 77, 255} :
        /\ WithinBlend(<<v, v, v>>, <<v, v, v>>, 1000, 1000, <<b, b, b>>)
        /\ WithinBlend(<<b, b, b>>, <<v, v, v>>, 0, 1000, <<b, b, b>>)
        /\ (Abs(v - b) > 3 => ~WithinBlend(<<b, b, b>>, <<v, v, v>>, 1000, 1000, <<b, b, b>>))
   /\ Over(<<255, 0, 10>>, 500, 1000, <<0, 0, 0>>) = <<{126, 127, 128, 129}, {0, 1}, {4, 5, 6}>>
ASSUME HexAndNamed ==
   /\ Hex3(<<15, 0, 10>>) = Exactly(<<255, 0, 170>>) /\ HexByte(15, 15) = 255 /\ HexByte(0, 0) = 0
   /\ Named("rebeccapurple") = Exactly(<<102, 51, 153>>) /\ Named("red") = Exactly(<<255, 0, 0>>)
   /\ Cardinality(DOMAIN NamedColour) = 148
   /\ PctChan(1000) = {255} /\ PctChan(0) = {0} /\ PctChan(500) = {127, 128} /\ PctChan(333) = {85}
====
