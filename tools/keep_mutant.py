#!/usr/bin/env python3
"""tools/keep_mutant.py <PROP> <k> [check-id] : confirm the sub-agent's mutant /tmp/wt_out/<PROP>/patch<k>.diff in a scratch
worktree (tests pass with it, demo fails with it / passes without), run ./check against /repo with the patch applied (and
reverted afterwards), and keep it as /verif/seeded/<PROP>-<k>/ {patch.diff, demo.py, notes.md, meta.json}."""
import sys, os, subprocess, json, shutil, re, time
prop, k = sys.argv[1], sys.argv[2]
check = sys.argv[3] if len(sys.argv) > 3 else prop
tier = sys.argv[4] if len(sys.argv) > 4 else "quick"
import os as _os
src = _os.environ.get("MUT_SRC", "/tmp/wt_out") + f"/{prop}"
suffix = _os.environ.get("MUT_SUFFIX", "")
patch, demo, notes = f"{src}/patch{k}.diff", f"{src}/demo{k}.py", f"{src}/notes{k}.md"
out = subprocess.run(["/verif/tools/mutant.sh", patch, demo, check, tier], capture_output=True, text=True).stdout
print(out)
m_clean = re.search(r"demo on clean tree: exit (\d+)", out)
m_tests = re.search(r"(\d+) passed", out)
m_failed = re.search(r"(\d+) failed", out)
m_demo = re.search(r"demo with patch: exit (\d+)", out)
m_check = re.search(r"check exit: (\d+)", out)
clauses = sorted(set(re.findall(r"^VIOLATION .*#\s*(\S+)", out, re.M)))
ok = (m_clean and m_clean.group(1) == "0" and m_tests and m_tests.group(1) == "125" and not m_failed
      and m_demo and m_demo.group(1) != "0")
if not ok:
    print("NOT CONFIRMED - not kept"); sys.exit(1)
d = f"/verif/seeded/{prop}-{k}{suffix}"
os.makedirs(d, exist_ok=True)
shutil.copy(patch, f"{d}/patch.diff"); shutil.copy(demo, f"{d}/demo.py")
needs = ""
if os.path.exists(notes):
    shutil.copy(notes, f"{d}/notes.md"); needs = open(notes).read()
meta = {
    "breaks_property": prop,
    "source": "independent sub-agent given only the property text and a scratch worktree",
    "needs_to_manifest": needs[:3000],
    "confirmed": {"tests_with_patch": "125 passed", "demo_clean_tree_exit": 0, "demo_with_patch_exit": int(m_demo.group(1)),
                  "how": "tools/mutant.sh: scratch git worktree of /repo HEAD, PYTHONPATH=<wt>/src /venv/bin/python -m pytest / demo.py"},
    "check_run": {"cmd": f"VERIF_REPO=<scratch worktree with the patch applied> VERIF_TIER={tier} ./check {check}",
                  "exit": int(m_check.group(1)) if m_check else None, "detected": bool(m_check and m_check.group(1) == "1"),
                  "rejecting_clauses": clauses},
    "date": time.strftime("%Y-%m-%d"),
}
json.dump(meta, open(f"{d}/meta.json", "w"), indent=1)
print("kept", d, "detected=", meta["check_run"]["detected"], clauses)
