SPECIFICATION GenSpec
INVARIANT Total
INVARIANT ValidSetsSane
INVARIANT IntTripleIsItself
CHECK_DEADLOCK FALSE
