"""Parser for TLA+ values as TLC prints them (state dumps, PrintT): ints, strings, booleans, tuples <<..>>,
sets {..}, records [a |-> v, ..], functions (k :> v @@ ..) and model values (bare identifiers).
Used to take TLC-generated behaviours / enumerated abstract inputs back into Python."""
import re


class P:
    def __init__(self, s):
        self.s = s
        self.i = 0

    def ws(self):
        while self.i < len(self.s) and self.s[self.i] in " \t\r\n":
            self.i += 1

    def peek(self, t):
        self.ws()
        return self.s.startswith(t, self.i)

    def eat(self, t):
        self.ws()
        if not self.s.startswith(t, self.i):
            raise ValueError(f"expected {t!r} at {self.i}: {self.s[self.i:self.i + 40]!r}")
        self.i += len(t)

    def value(self):
        self.ws()
        s, i = self.s, self.i
        if s.startswith("<<", i):
            self.i += 2
            out = []
            if self.peek(">>"):
                self.eat(">>")
                return tuple(out)
            while True:
                out.append(self.value())
                if self.peek(","):
                    self.eat(",")
                else:
                    break
            self.eat(">>")
            return tuple(out)
        if s[i] == "{":
            self.i += 1
            out = []
            if self.peek("}"):
                self.eat("}")
                return frozenset()
            while True:
                out.append(self.value())
                if self.peek(","):
                    self.eat(",")
                else:
                    break
            self.eat("}")
            try:
                return frozenset(out)
            except TypeError:
                return tuple(out)
        if s[i] == "[":
            self.i += 1
            rec = {}
            while True:
                self.ws()
                m = re.compile(r"[A-Za-z_][A-Za-z0-9_]*").match(s, self.i)
                k = m.group(0)
                self.i = m.end()
                self.eat("|->")
                rec[k] = self.value()
                if self.peek(","):
                    self.eat(",")
                else:
                    break
            self.eat("]")
            return rec
        if s[i] == "(":
            self.i += 1
            fn = {}
            while True:
                k = self.value()
                self.eat(":>")
                fn[k] = self.value()
                if self.peek("@@"):
                    self.eat("@@")
                else:
                    break
            self.eat(")")
            return fn
        if s[i] == '"':
            j = i + 1
            out = []
            while s[j] != '"':
                if s[j] == "\\":
                    j += 1
                    out.append({"n": "\n", "t": "\t"}.get(s[j], s[j]))
                else:
                    out.append(s[j])
                j += 1
            self.i = j + 1
            return "".join(out)
        m = re.compile(r"-?\d+").match(s, i)
        if m:
            self.i = m.end()
            # a range a..b
            if s.startswith("..", self.i):
                self.i += 2
                m2 = re.compile(r"-?\d+").match(s, self.i)
                self.i = m2.end()
                return tuple(range(int(m.group(0)), int(m2.group(0)) + 1))
            return int(m.group(0))
        m = re.compile(r"[A-Za-z_][A-Za-z0-9_]*").match(s, i)
        if m:
            self.i = m.end()
            w = m.group(0)
            return True if w == "TRUE" else False if w == "FALSE" else w
        raise ValueError(f"cannot parse at {i}: {s[i:i + 40]!r}")


def parse(text):
    p = P(text)
    v = p.value()
    return v


def parse_dump(path, var=None):
    """Iterate over the states of a TLC `-dump` file as dicts var -> value (or just the value of `var`)."""
    with open(path) as f:
        block = []
        for line in f:
            if line.startswith("State ") and line.rstrip().endswith(":"):
                if block:
                    yield _state("".join(block), var)
                block = []
            else:
                block.append(line)
        if block:
            yield _state("".join(block), var)


def _state(text, var):
    text = text.strip()
    if not text:
        return None
    parts = re.split(r"(?:^|\n)/\\ ", text)
    st = {}
    for part in parts:
        part = part.strip()
        if not part:
            continue
        m = re.match(r"([A-Za-z_][A-Za-z0-9_]*) = ", part)
        if not m:
            # single-variable specs print "x = value" without the leading /\
            continue
        name = m.group(1)
        if var is not None and name != var:
            continue
        st[name] = parse(part[m.end():])
    return st.get(var) if var is not None else st


def parse_sim_trace(path):
    """states of one behaviour file written by `tlc -simulate file=...` -> list of dicts var -> value"""
    text = open(path).read()
    out = []
    for block in re.split(r"(?m)^STATE_\d+ ==\s*$", text)[1:]:
        block = block.split("\n\n")[0] if False else block
        # cut at the next comment line (action header) or the closing ====
        block = re.split(r"(?m)^(?:\\\*|====)", block)[0]
        st = _state(block, None)
        if st:
            out.append(st)
    return out
