"""C18 - CLI batches: per-file isolation, bad files skipped, outputs never re-consumed.

Design level: CliBatch.tla (every tree of <= 3 files over 12 kinds, every traversal order, two runs; regression configs with a
shared custom-property table / kept *_cm.css inputs are rejected by TLC).  Spec -> code: TLC enumerates the abstract trees;
each is materialised in a scratch directory (names and sub-directories permuted to vary traversal order), the real command
is run twice on the directory and once per valid file alone; TrBatch.tla judges the recorded runs.
"""
import os, sys, random, json, shutil, tempfile, hashlib
sys.path.insert(0, os.path.dirname(os.path.abspath(__file__)))
import vlib, clilib

PID = "C18"
VALID = {"defines", "usesOwn", "usesOther", "plain", "empty"}
FAULTS = {"undecodable", "dirnamed", "dangling", "unserialisable", "faultDefines", "unencodable", "outdir", "deepnest"}


def content(kind, rnd):
    if kind == "defines":
        return (":root{--bg:#000000; --c:%s; --t:#767676} .d{color:#808080;background-color:#ffffff} .d2{color:var(--t)} "
                ".len{color: rgb(119, 119, 119)}\n" % rnd.choice(["#777777", "#8a8a8a"])).encode()
    if kind == "usesOwn":
        return b":root{--c:#7a7a7a} .u{color:var(--c)} .v{color:#999;background-color:#fff} .len{color: rgb(120, 120, 120); background-color: white}\n"
    if kind == "usesOther":
        return rnd.choice([b".box{color:#777777;background-color:var(--bg, white)} .t{color:var(--c)}\n",
                           b".tip{color:var(--c);background-color:#ffffff} .k{color:#6f6f6f}\n",
                           b".w{color:var(--t, #787878)} .bx{color:#888888;background-color:var(--bg,#ffffff)}\n"])
    if kind == "plain":
        g = clilib.Gen(rnd, nrules=rnd.choice([2, 5]), depth=1, f_known=0.0, carry=True, nvars=0)
        nodes = [n for n in g.sheet() if n["t"] != "vars"]
        return clilib.render(nodes, rnd).encode("utf-8")
    if kind == "empty":
        # nothing to adjust; sometimes valid CSS that does not survive parse + serialise byte for byte (an escape that need not be
        # one, a form feed): the output of such a file is whatever the tool writes for it ALONE
        return rnd.choice([b"", b"\n", b"/* nothing here */\n", b".h\\65ro{margin:0}\x0c\n.k{padding:1px}", b".a{color:#000000;background-color:#ffffff}\n.h\\65ro { top : 0 }\n",
                           b".h\\65ro{margin:0}\x0c\n.k{padding:1px}", b".a{color:#000000;background-color:#ffffff}\n.h\\65ro { top : 0 }\n", b".open { margin: 0"])
    if kind == "deepnest":
        d = rnd.choice([1500, 3000])
        return (b"@media screen {" * d) + b".a{color:#777777;background-color:#ffffff}" + (b"}" * d) + b"\n"
    if kind == "undecodable":
        # invalid UTF-8 at the start / UTF-16 / a file that is fine until it ENDS in the middle of a multi-byte character
        return rnd.choice([b"\xff\xfe\xfa .a{color:#777777}\n", ".a{color:#777}".encode("utf-16"), b".a{color:#777777} /* caf\xc3\xa9 \xe2\x82",
                           b".b{color:#5c5c5c;background-color:#ffffff}\n/* \xf0\x9f\x8d"])
    if kind == "unserialisable":
        # a conditional block that ends in a selector without a block (invalid CSS) after a colour that needs fixing in EVERY
        # setting (#777 without --premium, #5c5c5c with it; explicit white background): re-serialising the block fails.
        # (Until fix b8275e3 a star hack - "*zoom: 1" - in a modified rule did the same; that is now carried through, see F11.)
        return (b"@media screen{.z{color:#777777; background-color:#ffffff} .z2{color:#5c5c5c; background-color:#ffffff} .junk } "
                b".y{color:#000}\n")
    if kind == "faultDefines":
        # custom properties are collected, then serialisation of the processed conditional block fails (late fault)
        return (b":root{--bg:#000000; --c:#777777; --t:#767676} @media screen{.z{color:#777777; background-color:#ffffff} "
                b".z2{color:#5c5c5c; background-color:#ffffff} .junk }\n")
    if kind == "unencodable":
        # valid UTF-8, parses and serialises; the escape denotes a lone surrogate, which the output encoding refuses
        return b'.s{color:#777777;background-color:#ffffff;content:"\\d800"} .s2{color:#5c5c5c;background-color:#ffffff}\n'
    if kind == "outdir":
        return b".q{color:#777777;background-color:#ffffff} .q2{color:#5c5c5c;background-color:#ffffff}\n"
    if kind == "cm":
        return b".old{color:#777777} .o2{color:#999999;background-color:#ffffff}\n"
    raise ValueError(kind)


def materialise(tree, root, rnd):
    """tree: kinds per slot -> {slot: relpath}; creates the files"""
    stems = ["a", "m", "z", "B", "k9", "theme", "0x", "x.min", "v1.2", "lib.2024.min"]
    rnd.shuffle(stems)
    stems += ["f%02d" % j for j in range(len(tree))]       # (large trees: more slots than hand-picked names)
    same_name = len(tree) <= 4 and rnd.random() < 0.3       # every file has the SAME name, each in a directory of its own
    family = (not same_name) and len(tree) <= 4 and rnd.random() < 0.3      # one directory, names that extend one another
    fam_stems = rnd.sample(["theme", "theme2", "theme.min", "themeA", "theme-dark", "theme_2", "site", "site.min"], 4)
    if rnd.random() < 0.35:
        # names that differ only in their Unicode normalisation form (precomposed / decomposed): two different files here
        fam_stems = ["caf\u00e9", "cafe\u0301", "\u00c5ngstr\u00f6m", "A\u030angstro\u0308m"]
        rnd.shuffle(fam_stems)
    dirs = ["", "sub", "sub/deep", "other", ".hidden", ".config/styles", "sub/.cache"]      # (dot-directories are directories)
    paths = {}
    for s, kind in enumerate(tree, start=1):
        if kind == "none":
            continue
        d = rnd.choice(dirs)
        stem = stems[s]
        if family:
            d, stem = "pack", fam_stems[(s - 1) % len(fam_stems)]
        if same_name:
            d, stem = dirs[(s - 1) % len(dirs)], stems[0]
        elif rnd.random() < 0.12:
            stem = "." + stem          # a dot-file is a file
        name = (stem + "_cm.css") if kind == "cm" else (stem + ".css")
        rel = os.path.join(d, name) if d else name
        full = os.path.join(root, rel)
        os.makedirs(os.path.dirname(full), exist_ok=True)
        if kind == "dirnamed":
            os.makedirs(full)
            with open(os.path.join(full, "readme.txt"), "w") as f:
                f.write("a directory whose name ends in .css")
        elif kind == "dangling":
            os.symlink(os.path.join(root, "missing-target.css"), full)
        else:
            with open(full, "wb") as f:
                f.write(content(kind, rnd))
            if kind == "outdir":        # the name the output would get is taken by a directory
                os.makedirs(os.path.join(root, out_rel(rel)))
        paths[s] = rel
    return paths


def out_rel(rel):
    base, ext = os.path.splitext(rel)
    return base + "_cm" + ext


def one_tree(job):
    tree, seed, settings = job
    rnd = random.Random(seed)
    vlib.use_repo()
    root = tempfile.mkdtemp(prefix="verif_tree_")
    cwd = tempfile.mkdtemp(prefix="verif_cwd_")
    ids = {}

    def hid(b):
        if b is None:
            return 0
        h = hashlib.sha256(b).hexdigest()
        return ids.setdefault(h, len(ids) + 1)

    try:
        paths = materialise(tree, root, rnd)
        # a second NAME for one of the valid stylesheets (a hard link: two directory entries, one inode): two names are two
        # stylesheets, each with its own output
        if seed % 4 == 1:
            cand = [s_ for s_, rel_ in sorted(paths.items()) if tree[s_ - 1] in VALID]
            if cand:
                s0 = cand[0]
                rel2 = os.path.join(os.path.dirname(paths[s0]), "twin-of-" + os.path.basename(paths[s0]).lstrip("."))
                try:
                    os.link(os.path.join(root, paths[s0]), os.path.join(root, rel2))
                    tree = tuple(tree) + (tree[s0 - 1],)
                    paths[len(tree)] = rel2
                except OSError:
                    pass
        args = ["--mode", str(settings[0])] + (["--premium"] if settings[1] else []) + (["--default-bg", settings[2]] if settings[2] else [])
        # reference: each valid file alone, in a directory containing nothing else
        single = {}
        for s, rel in paths.items():
            if tree[s - 1] in VALID:
                alone = tempfile.mkdtemp(prefix="verif_alone_")
                try:
                    dst = os.path.join(alone, rel)
                    os.makedirs(os.path.dirname(dst), exist_ok=True)
                    shutil.copyfile(os.path.join(root, rel), dst)
                    clilib.run_cli(dst, args, cwd)
                    op = os.path.join(alone, out_rel(rel))
                    single[s] = open(op, "rb").read() if os.path.exists(op) else None
                finally:
                    shutil.rmtree(alone, ignore_errors=True)
        evs = []
        info = {"tree": list(tree), "paths": paths, "args": args, "runs": []}
        before0 = clilib.listing(root)
        if seed % 3 == 0:
            # history: an earlier run over the same tree with OTHER settings (its outputs must be replaced, not patched)
            prior = ["--mode", str(settings[0])] + ([] if settings[1] else ["--premium"]) + (["--default-bg", settings[2]] if settings[2] else [])
            clilib.run_cli(root, prior, cwd)
            info["prior_args"] = prior
        for n in (1, 2):
            before = clilib.listing(root)
            res = clilib.run_cli(root, args, cwd)
            after = clilib.listing(root)
            files = []
            allowed = set()
            for s, rel in sorted(paths.items()):
                kind = tree[s - 1]
                o = os.path.join(root, out_rel(rel))
                out_bytes = open(o, "rb").read() if os.path.isfile(o) else None
                if kind != "cm":
                    allowed.add(out_rel(rel))
                full = os.path.join(root, rel)
                # "Error processing <path>: ..." with exactly this file's path (not a substring of another file's path or message)
                reported = any(("Error processing " + pth + ":") in res["stderr"] for pth in (full, rel, os.path.join(".", rel)))
                files.append({"slot": s, "kind": kind, "reported": bool(reported), "out": hid(out_bytes) if kind != "cm" else 0,
                              "single": hid(single.get(s)) if kind in VALID else 0,
                              "inputSame": after.get(rel) == before0.get(rel),
                              "cmcm": bool(kind == "cm" and os.path.exists(o))})
            extra = sorted(k for k in after if k not in before0 and k not in allowed)
            evs.append({"e": "dirrun", "n": n, "exit": res["exit"], "exception": res["exception"], "files": files, "extraNew": extra})
            info["runs"].append({"stdout": res["stdout"][-600:], "stderr": res["stderr"][-800:]})
        return evs, info
    finally:
        shutil.rmtree(root, ignore_errors=True)
        shutil.rmtree(cwd, ignore_errors=True)



def _naming(job):
    segs = list(job)
    vlib.use_repo()
    root = tempfile.mkdtemp(prefix="verif_name_")
    cwd = tempfile.mkdtemp(prefix="verif_cwd_")
    try:
        fname = ".".join(segs)
        path = os.path.join(root, fname)
        open(path, "w").write(".a{color:#777777;background-color:#ffffff}\n")
        before = clilib.listing(root)
        clilib.run_cli(path, [], cwd)
        after = clilib.listing(root)
        new = sorted(k for k in after if k not in before)
        out = new[0].split(".") if len(new) == 1 else ([] if not new else ["<several>"] + new)
        # repeated directory runs: the first may legitimately process inputs not yet processed; from then on nothing new
        clilib.run_cli(root, [], cwd)
        l1 = clilib.listing(root)
        clilib.run_cli(root, [], cwd)
        clilib.run_cli(root, [], cwd)
        l2 = clilib.listing(root)
        rerun_new = sorted(k for k in l2 if k not in l1)
        return {"name": segs, "out": out, "inputSame": after.get(fname) == before.get(fname) and l2.get(fname) == before.get(fname),
                "rerunNew": rerun_new}
    finally:
        shutil.rmtree(root, ignore_errors=True)
        shutil.rmtree(cwd, ignore_errors=True)


def naming(rep, t):
    rep.add_model("MC_Naming(MaxSeg=4)", vlib.check_model("Naming", "MC_Naming.cfg", workers=4), "output name never re-consumed, never the input name")
    r = vlib.check_model("Naming", "MC_Naming_regress.cfg", workers=4)
    if r.ok or "is violated" not in (r.error + r.stdout):
        raise vlib.MachineryError("regression configuration MC_Naming_regress is expected to be rejected by TLC but was not")
    rg, names = vlib.tlc_enumerate("Naming", "MC_Naming.cfg", "name", workers=2)
    names = sorted({tuple(n) for n in names if len(n) >= 2 and n[-1] == "css"})
    if t == "quick":
        names = [n for n in names if len(n) <= 3]
    evs = vlib.pool_map(_naming, names, chunksize=2)
    traces = [evs[i:i + 16] for i in range(0, len(evs), 16)]
    cfg = "SPECIFICATION TSpec\nCONSTANTS MaxSeg = 4\n JoinAllSuffixes = FALSE\nPOSTCONDITION KitPost\nCHECK_DEADLOCK FALSE\n"
    agg = vlib.validate_traces("TrNaming", traces, cfg=cfg, shards=2)
    rep.add_traces(agg, len(traces))
    rep.evaluations += len(evs)
    rep.extra["file_names_enumerated_by_tlc_and_replayed"] = len(evs)
    rep.sample({"naming_event": evs[len(evs) // 2]})
    for b in agg["bad"]:
        rep.drift += sum(1 for x in b["incon"] if x.startswith("D_"))
        mine = [f for f in b["fails"] if f.startswith(("C18_", "C09_"))]
        if mine:
            rep.violation("/".join(mine), {"events": traces[b["tid"]],
                          "reproduce": "create a file with the dotted name, run `cm-colors <file>`, then `cm-colors <dir>` three times"})


def main():
    t = vlib.tier()
    rnd = random.Random(vlib.seed() * 2147483629 + 18)
    rep = vlib.Report(PID)
    rep.assumptions = ["TLC/SANY", "byte equality via SHA-256 of the written files", "the tool run on a file alone (in an otherwise empty directory) as the reference, as the property states",
                       "traversal order cannot be forced: it is varied through file names and sub-directories"]
    rep.rule = ("every tree of <= 3 files over {defines, usesOwn, usesOther, plain, empty, undecodable, dirnamed, dangling, unserialisable, cm} "
                "enumerated by TLC from CliBatch.tla (quick: seeded sample), names/sub-directories permuted, x settings, two consecutive runs; "
                "distinct = distinct (tree, placement)")
    rep.add_model("MC_CliBatch(NF=3)", vlib.check_model("CliBatch", "MC_CliBatch.cfg"),
                  "all trees x all traversal orders x two runs: Isolation, SkipBad, NoCmInput, RerunStable")
    for name in ("MC_CliBatch_regress_shared", "MC_CliBatch_regress_cm", "MC_CliBatch_regress_leak"):
        r = vlib.check_model("CliBatch", name + ".cfg")
        if r.ok or "is violated" not in (r.error + r.stdout):
            raise vlib.MachineryError(f"regression configuration {name} is expected to be rejected by TLC but was not")
        rep.models.append(dict(model=name, expected="violation (deviation switched on)", states_generated=r.generated))
    r, trees = vlib.tlc_enumerate("CliBatch", "MC_CliBatch_gen.cfg", "tree")
    trees = sorted({tuple(tr[k] for k in sorted(tr)) if isinstance(tr, dict) else tuple(tr) for tr in trees})
    rep.add_model("CliBatch tree generator", r, "abstract directory trees replayed into the implementation")
    rep.extra["trees_enumerated_by_tlc"] = len(trees)
    n = 110 if t == "quick" else len(trees) * 2
    interesting = [tr for tr in trees if any(k in FAULTS or k == "cm" or k == "usesOther" for k in tr)]
    interesting += [tr for tr in trees if "faultDefines" in tr and "usesOther" in tr] * 3
    interesting += [tr for tr in trees if "empty" in tr and any(k in tr for k in ("defines", "usesOwn", "plain"))] * 2
    chosen = [rnd.choice(interesting) if k % 4 else rnd.choice(trees) for k in range(n)] if t == "quick" else trees * 2
    jobs = [(tr, rnd.randrange(1 << 30), (k % 3, bool((k // 3) & 1), rnd.choice([None, None, "#000000", "white", "var(--bg, white)", "var(--c, #fafafa)"])))
            for k, tr in enumerate(chosen)]
    # large trees (30-50 files, mostly files with their own :root block, a few faults): whatever a run keeps between files
    # (tables, maps keyed by object identity, descriptors) has dozens of chances to reach a later file
    big_kinds = ["defines", "usesOwn", "usesOwn", "plain", "usesOther", "defines", "empty", "undecodable", "unserialisable", "faultDefines", "deepnest"]
    for k in range(4 if t == "quick" else 60):
        tr = tuple(rnd.choice(big_kinds) for _ in range(rnd.choice([30, 40, 50])))
        jobs.append((tr, rnd.randrange(1 << 30), (k % 3, False, None)))
    rep.extra["large_trees"] = 4 if t == "quick" else 60
    res = vlib.pool_map(one_tree, jobs, chunksize=2)
    behs = [b for b, _ in res]
    agg = vlib.validate_traces("TrBatch", behs, min_per_shard=10)
    rep.add_traces(agg, len(behs))
    rep.evaluations = sum(len(b[0]["files"]) for b in behs)
    rep.nontrivial = len({(tuple(j[0]), json.dumps(i["paths"], sort_keys=True)) for j, (_, i) in zip(jobs, res)})
    rep.extra["fault_kinds_placed"] = {k: sum(1 for j in jobs for x in j[0] if x == k) for k in sorted(FAULTS | {"cm"})}
    rep.sample({"tree": list(jobs[0][0]), "paths": res[0][1]["paths"], "run1": behs[0][0]})
    for bad in agg["bad"]:
        mine = [f for f in bad["fails"] if f.startswith("C18_")]
        if mine:
            tid = bad["tid"]
            rep.violation("/".join(mine), {"tree": list(jobs[tid][0]), "paths": res[tid][1]["paths"], "args": res[tid][1]["args"],
                          "runs": behs[tid], "output": res[tid][1]["runs"],
                          "reproduce": "materialise the tree (kinds per slot, see harness/c18.py content()), run `cm-colors <dir>` twice and `cm-colors <file>` per valid file alone"})
    naming(rep, t)
    return rep.finish()


if __name__ == "__main__":
    vlib.main_wrapper(main)
