"""C19 - reports are injection-safe: user text appears only HTML-escaped.

Report.tla models the escaping discipline and an abstract tokenizer for the two slot contexts (element content, double-quoted
attribute value) and model-checks SafeP for every string of <= 3 symbols over a markup-rich alphabet (regression modes
noquote / none / skipIfRef are rejected).  Spec -> code: TLC enumerates the strings; each is concretised and placed in every
user-controlled slot of both generators called directly, and a sample goes through the end-to-end routes (CLI selectors and
file names, colour strings that still parse, save_report on single pairs and bulk lists).  The written report is tokenised with
html.parser; TrReport.tla judges structure = benign structure and slot text verbatim.
"""
import re, os, sys, random, json, tempfile, shutil, io, contextlib
from html.parser import HTMLParser
sys.path.insert(0, os.path.dirname(os.path.abspath(__file__)))
import vlib, clilib

PID = "C19"
SIGMA = ["<", ">", "&", "\"", "'", "`", "/", "=", " ", "a", "script", "style=", "onerror=", "</div>", "</style>", "-->",
         "&lt;", "&amp;", "&#39;", "&quot", "\uff02", "\uff1c", "\uff1e", "\uff06",
         "\\", "\\074", "\\g<0>", "{0}", "%s", "</SCRIPT>", "</script >"]
MARK = "BENIGNTEXT"
WRAPS = [None, "rgb(119, 119, 119%s)", "#777777%s", "hsl(0, 0%%, 47%%%s)", "rgba(1, 2, 3, 0.5)%s", "red %s", "RGB(%s)"]
FW = {"\uff02": "@", "\uff1c": "$", "\uff1e": "~", "\uff06": "^"}      # placeholders used by Report.tla for the fullwidth characters


def to_model_chars(text):
    return [FW.get(ch, ch) for ch in text]

# slot -> (field name, element classes whose text shows it, style property through which it reaches an attribute (or None))
CLI_SLOTS = {"selector": ("selector", ["selector#0"], None), "file": ("file", ["file-info#0"], None),
             "bg": ("bg", [], "background-color"), "original_text": ("original_text", ["color-code#0"], "color#0"),
             "tuned_text": ("tuned_text", ["color-code#1"], "color#1")}
API_SLOTS = {"selector": ("selector", ["selector#0"], None), "file": ("file", ["file-info#0"], None),
             "bg": ("bg", [], "background-color"), "fg": ("fg", ["color-code#0"], "color#0"),
             "tuned_fg": ("tuned_fg", ["color-code#1"], "color#1")}


class Struct(HTMLParser):
    def __init__(self):
        super().__init__(convert_charrefs=True)
        self.seq = []
        self.texts = {}
        self.styles = []
        self.stack = []
        self.counts = {}
        self.alltext = [""]        # every run of character data between two tags, in document order
        self.keyed = [False]       # ... and whether it belongs to one of the keyed slot elements

    def _cut(self):
        self.alltext.append("")
        self.keyed.append(False)

    def handle_starttag(self, tag, attrs):
        self._cut()
        self.seq.append(("s", tag, tuple(sorted(k for k, _ in attrs))))
        a = dict(attrs)
        cls = a.get("class") or ""
        key = None
        if cls in ("selector", "file-info", "color-code"):
            n = self.counts.get(cls, 0)
            self.counts[cls] = n + 1
            key = f"{cls}#{n}"        # n-th occurrence in the document (card 0 has selector#0, file-info#0, color-code#0/#1)
            self.texts.setdefault(key, "")
        if cls == "color-box":
            self.styles.append(a.get("style") or "")
        self.stack.append(key)

    def handle_startendtag(self, tag, attrs):
        self.seq.append(("se", tag, tuple(sorted(k for k, _ in attrs))))

    def handle_endtag(self, tag):
        self._cut()
        self.seq.append(("e", tag))
        if self.stack:
            self.stack.pop()

    def handle_comment(self, data):
        self.seq.append(("c",))

    def handle_decl(self, decl):
        self.seq.append(("d",))

    def handle_pi(self, data):
        self.seq.append(("pi",))

    def handle_data(self, data):
        self.alltext[-1] += data
        for k in reversed(self.stack):
            if k is not None:
                self.texts[k] += data
                self.keyed[-1] = True
                break


def parse(path):
    p = Struct()
    p.feed(open(path, encoding="utf-8").read())
    p.close()
    return p


def style_value(style, prop):
    """value of a `prop: value;` item of the style attribute by position (prop#n = nth color-box)"""
    return style


def extract(p, slotdef, given_marker_struct):
    """decoded slot text occurrences: list of (where, text)"""
    field, classes, sprop = slotdef
    out = []
    for c in classes:
        out.append((c, p.texts.get(c)))
    if sprop:
        name, _, idx = sprop.partition("#")
        styles = p.styles
        boxes = [int(idx)] if idx else [0, 1]
        for b in boxes:
            st = styles[b] if b < len(styles) else None
            out.append((f"style[{b}].{name}", st))
    return out


VARIANTS = 6      # shapes of the record list around the slot under test


def records(gen, slots, slot, text, variant):
    """the list of pair records given to the generator: the slot under test carries `text`; the variant decides the
    library-computed fields around it (levels, whether the colour was changed) and how many cards / files there are"""
    lv = [("FAIL", "AA"), ("AA", "AA"), ("AAA", "AAA"), ("FAIL", "FAIL"), ("FAIL", "AA"), ("AA", "AAA")][variant % VARIANTS]
    same = variant % VARIANTS in (1, 2, 3)          # an unchanged card: tuned colour spelled exactly like the original
    if gen == "cli":
        pair = {"file": "styles.css", "selector": ".sel", "bg": "#ffffff", "original_text": "#777777",
                "tuned_text": "#777777" if same else "#757575", "original_level": lv[0], "new_level": lv[1]}
        pair[slots[slot][0]] = text
        if same and slots[slot][0] == "original_text":
            pair["tuned_text"] = text
        other = {"file": "other.css", "selector": ".o", "bg": "#000000", "original_text": "#888888", "tuned_text": "#8a8a8a",
                 "original_level": "FAIL", "new_level": "AA"}
    else:
        pair = {"fg": "#000000" if same else "#777777", "bg": "#ffffff", "tuned_fg": "#000000" if same else "#757575",
                "original_level": lv[0], "new_level": lv[1], "selector": "Pair 1", "file": "Bulk API"}
        pair[slots[slot][0]] = text
        if same and slots[slot][0] == "fg":
            pair["tuned_fg"] = text
        other = {"fg": "#888888", "bg": "#000000", "tuned_fg": "#8a8a8a", "original_level": "FAIL", "new_level": "AA",
                 "selector": "Pair 2", "file": "Second file"}
    if variant % VARIANTS in (4, 5):                 # several cards from several files; the card under test first
        return [pair, other, dict(other, selector=".o2")]
    return [pair]


def render(gen, slots, slot, text, workdir, variant=0):
    vlib.use_repo()
    path = os.path.join(workdir, "r.html")
    if os.path.exists(path):
        os.remove(path)
    recs = records(gen, slots, slot, text, variant)
    if gen == "cli":
        from cm_colors.cli.html_report import generate_report
        generate_report(recs, output_path=path)
    else:
        from cm_colors.core.visualiser import to_html_bulk
        to_html_bulk(recs, output_path=path)
    return parse(path)


_BENIGN = {}
_IDS = {}


def sid(seq):
    return _IDS.setdefault(tuple(seq), len(_IDS) + 1)


def source_dictionary():
    """tokens from the string constants of the report generators' source (ast): candidate placeholders / markers"""
    import ast
    vlib.use_repo()
    import cm_colors.cli.html_report as m1, cm_colors.core.visualiser as m2
    words = set()
    for mod in (m1, m2):
        try:
            tree = ast.parse(open(mod.__file__, encoding="utf-8").read())
        except Exception:
            continue
        for node in ast.walk(tree):
            if isinstance(node, ast.Constant) and isinstance(node.value, str):
                for w in re.findall(r"[A-Za-z_@$%#!\[\]{}<>/-][A-Za-z0-9_@$%#!\[\]{}<>/:.-]{3,39}", node.value):
                    # keep what looks like a marker or placeholder rather than prose / CSS
                    if re.search(r"__|\{\{|\}\}|%%|\$\{|<!--|-->|@@|\[\[|##|PLACEHOLDER|MARK|TOKEN|SLOT", w) or (w.isupper() and len(w) >= 5):
                        words.add(w.strip(".:"))
    return sorted(words)[:400]


def observe(job):
    gen, slot, sym = job[:3]
    variant = (sum(sym) + len(sym) + (job[3] if len(job) > 3 else 0)) % VARIANTS
    slots = CLI_SLOTS if gen == "cli" else API_SLOTS
    text = "".join(SIGMA[k - 1] for k in sym)
    wrap = job[4] if len(job) > 4 else 0
    if len(job) > 5 and job[5] is not None:
        text, wrap = job[5], -1          # a literal text (dictionary word, long repetition): Given = this text
    if wrap > 0:
        # the string sits INSIDE something that has the overall shape of a colour value (what a "looks like a colour, no need
        # to escape" shortcut would let through): the whole value is the user's text
        text = WRAPS[wrap] % text
    wd = tempfile.mkdtemp(prefix="verif_rep_")
    try:
        key = (gen, slot, variant)
        if key not in _BENIGN:
            _BENIGN[key] = render(gen, slots, slot, MARK, wd, variant)
        ben = _BENIGN[key]
        evs = []
        try:
            p = render(gen, slots, slot, text, wd, variant)
        except Exception as ex:
            return [{"gen": gen, "slot": slot, "ctx": "content", "sym": list(sym), "raw": to_model_chars(text) if wrap else [], "tags": 0, "benignTags": 0, "text": [],
                     "raised": type(ex).__name__, "given": text}]
        tags, btags = list(p.seq), list(ben.seq)
        for (where, got), (_w, bgot) in zip(extract(p, slots[slot], None), extract(ben, slots[slot], None)):
            ctx = "attr" if where.startswith("style") else "content"
            if got is None or bgot is None or MARK not in bgot:
                txt = ["<missing>"]
            else:
                pre, post = bgot.split(MARK, 1)
                if got.startswith(pre) and got.endswith(post) and len(got) >= len(pre) + len(post):
                    mid = got[len(pre):len(got) - len(post)] if post else got[len(pre):]
                    txt = to_model_chars(mid)
                else:
                    txt = ["<displaced>"] + list(got[:40])
            evs.append({"gen": gen, "slot": slot + "@" + where, "ctx": ctx, "sym": list(sym), "raw": to_model_chars(text) if wrap else [], "tags": tags, "benignTags": btags,
                        "text": txt, "raised": "", "given": text})
        # wherever ELSE the document shows the slot's text (notes, captions, tooltips' text ...): every run of character data that
        # carries the marker in the benign rendering must carry the text itself, verbatim, in this one
        if len(p.alltext) == len(ben.alltext):
            for j, (bt, ht) in enumerate(zip(ben.alltext, p.alltext)):
                if MARK in bt:
                    pre, post = bt.split(MARK, 1)
                    if ht.startswith(pre) and ht.endswith(post) and len(ht) >= len(pre) + len(post):
                        txt = to_model_chars(ht[len(pre):len(ht) - len(post)] if post else ht[len(pre):])
                    else:
                        txt = ["<displaced>"] + list(ht[:40])
                    evs.append({"gen": gen, "slot": slot + "@text%d" % j, "ctx": "content", "sym": list(sym), "raw": to_model_chars(text) if wrap else [],
                                "tags": tags, "benignTags": btags, "text": txt, "raised": "", "given": text})
        return evs
    finally:
        shutil.rmtree(wd, ignore_errors=True)


def e2e(rnd, n):
    """end-to-end routes: the slot text is whatever reached the generator (captured by a recording wrapper)"""
    vlib.use_repo()
    import cm_colors.cli.main as cmain
    import cm_colors.core.visualiser as vis
    from cm_colors import ColorPair, make_readable_bulk
    evs = []
    payloads = ["\"><img src=x onerror=alert(1)>", "</div><script>alert(1)</script>", "' onmouseover='x", "&lt;b&gt;", "a&amp;b<",
                "x\" style=\"y", "`><svg/onload=1>", "--><b>", "&#39;<i>",
                "\\074img src=x onerror=alert()\\076", "\\g<0>\\1", "{0}{pairs}", "%(x)s %s",
                "</SCRIPT><img src=x onerror=y>", "</script ><b>", "</Script\t><i>", "]]></textarea></title><u>"]
    captured = {}
    orig_gen = cmain.generate_report

    def rec_gen(pairs, output_path="cm_colors_report.html"):
        captured["cli"] = [dict(p) for p in pairs]
        return orig_gen(pairs, output_path)

    orig_bulk = vis.to_html_bulk

    def rec_bulk(pairs, output_path="cm_colors_report.html"):
        captured["api"] = [dict(p) for p in pairs]
        return orig_bulk(pairs, output_path)

    cmain.generate_report = rec_gen
    vis.to_html_bulk = rec_bulk
    try:
        for k in range(n):
            pay = rnd.choice(payloads) if k % 2 else "".join(rnd.choice(SIGMA) for _ in range(rnd.randrange(1, 5)))
            route = k % 4
            wd = tempfile.mkdtemp(prefix="verif_e2e_")
            cwd = os.getcwd()
            try:
                os.chdir(wd)
                captured.clear()
                raised_e2e = ""
                if False:
                    pass
                elif route == 0 and k % 8 == 4:      # CLI: the payload in the prelude of the at-rule the fixed rule is nested in
                    esc = pay.replace("\\", "\\\\").replace("\"", "\\\"").replace("\n", " ")
                    open("in.css", "w").write("@supports (content: \"%s\") { .n{color:#777777;background-color:#ffffff} }\n"
                                               "@media screen and (min-width: 1px) { .m[title=\"%s\"]{color:#888888} }\n" % (esc, esc))
                    clilib.run_cli(os.path.join(wd, "in.css"), [], wd)
                    gen, rep = "cli", "cm_colors_report.html"
                elif route == 0 and k % 8 == 0:      # CLI: the same hostile selector twice in one file (top level and inside @media)
                    sel = ".a[title=\"%s\"]" % pay.replace("\\", "\\\\").replace("\"", "\\\"").replace("\n", " ")
                    open("in.css", "w").write(sel + "{color:#777777;background-color:#ffffff}\n@media print { " + sel + "{color:#888888;background-color:#ffffff} }\n"
                                              + sel + "{color:#7a7a7a}\n")
                    clilib.run_cli(os.path.join(wd, "in.css"), [], wd)
                    gen, rep = "cli", "cm_colors_report.html"
                elif route == 0:      # CLI: attribute selector string carrying the payload
                    sel = ".a[title=\"%s\"]" % pay.replace("\\", "\\\\").replace("\"", "\\\"").replace("\n", " ")
                    open("in.css", "w").write(sel + "{color:#777777;background-color:#ffffff}\n")
                    clilib.run_cli(os.path.join(wd, "in.css"), [], wd)
                    gen, rep, ben_text = "cli", "cm_colors_report.html", ".a[title=\"x\"]"
                    bsheet = ".a[title=\"x\"]{color:#777777;background-color:#ffffff}\n"
                elif route == 1 and k % 8 == 1:    # CLI: a directory tree in which one file NAME occurs twice, in a folder with a hostile name
                    dname = pay.replace("/", "_").replace("\x00", "") or "d"
                    try:
                        os.makedirs(os.path.join(wd, "t", dname))
                        os.makedirs(os.path.join(wd, "t", "plain"))
                        open(os.path.join(wd, "t", dname, "same.css"), "w").write(".b{color:#777777}\n")
                        open(os.path.join(wd, "t", "plain", "same.css"), "w").write(".p{color:#888888}\n")
                        if k % 16 == 1:
                            hn = dname + ".css"
                            open(os.path.join(wd, "t", dname, hn), "w").write(".c{color:#777777}\n")
                            open(os.path.join(wd, "t", "plain", hn), "w").write(".d{color:#888888}\n")
                    except OSError:
                        continue
                    clilib.run_cli(os.path.join(wd, "t"), [], wd)
                    gen, rep = "cli", "cm_colors_report.html"
                elif route == 1 and k % 8 != 5:    # CLI: file name carrying the payload
                    fname = pay.replace("/", "_").replace("\x00", "") + ".css"
                    try:
                        open(fname, "w").write(".b{color:#777777}\n")
                    except OSError:
                        continue
                    clilib.run_cli(os.path.join(wd, fname), [], wd)
                    gen, rep = "cli", "cm_colors_report.html"
                elif route == 2:    # API: a colour string that still parses, save_report on a single pair
                    gen, rep = "api", "cm_colors_quick_report.html"
                    with contextlib.redirect_stdout(io.StringIO()):
                        try:
                            ColorPair("119, 119, 119 " + pay, "#ffffff").make_readable(save_report=True)
                        except Exception as ex:
                            raised_e2e = type(ex).__name__
                elif route == 3 and k % 8 == 3:    # API: an ALREADY READABLE pair (unchanged card) with the payload in the background
                    gen, rep = "api", "cm_colors_bulk_report.html"
                    with contextlib.redirect_stdout(io.StringIO()):
                        try:
                            make_readable_bulk([("#000000", "255, 255, 255, 1 " + pay)], save_report=True)
                        except Exception as ex:
                            raised_e2e = type(ex).__name__
                elif route == 1 and k % 8 == 5:    # CLI: a directory with two files that both get fixes, one with a hostile name
                    fname = pay.replace("/", "_").replace("\x00", "") + ".css"
                    try:
                        open(fname, "w").write(".b{color:#777777}\n")
                        open("plain.css", "w").write(".p{color:#888888}\n")
                    except OSError:
                        continue
                    clilib.run_cli(wd, [], wd)
                    gen, rep = "cli", "cm_colors_report.html"
                else:               # API: bulk list with save_report
                    gen, rep = "api", "cm_colors_bulk_report.html"
                    with contextlib.redirect_stdout(io.StringIO()):
                        try:
                            make_readable_bulk([("119, 119, 119" + pay, "#ffffff"), ("#777777", "255, 255, 255 " + pay)], save_report=True)
                        except Exception as ex:
                            raised_e2e = type(ex).__name__
                if raised_e2e:
                    # the report request made the call raise on user text: a rendering that did not happen
                    evs.append({"gen": gen + "-e2e", "slot": "call", "ctx": "content", "sym": [], "raw": list(pay), "tags": [], "benignTags": [],
                                "text": [], "raised": raised_e2e, "given": pay[:80], "route": route})
                    continue
                if gen not in captured or not os.path.exists(rep):
                    continue
                given = captured[gen]
                p = parse(rep)
                # benign twin: same record shapes with harmless text
                ben_pairs = []
                for g in given:
                    ben_pairs.append({kk: ("x" if isinstance(v, (str, os.PathLike)) and kk not in ("original_level", "new_level") else v) for kk, v in g.items()})
                bpath = os.path.join(wd, "benign.html")
                (orig_gen if gen == "cli" else orig_bulk)(ben_pairs, bpath)
                b = parse(bpath)
                slots = CLI_SLOTS if gen == "cli" else API_SLOTS
                # card 0 only (class counters restart per document: first occurrences)
                for slot, sd in slots.items():
                    val = str(given[0].get(sd[0], ""))
                    for where, got in extract(p, sd, None):
                        if got is None:
                            continue
                        if where.startswith("style"):
                            ok_text = list(val) if val in got else ["<missing-in-style>"]
                        else:
                            ok_text = list(got.strip()) if got.strip() == val.strip() else list(got)
                        evs.append({"gen": gen + "-e2e", "slot": slot + "@" + where, "ctx": "attr" if where.startswith("style") else "content",
                                    "sym": [], "raw": list(val.strip() if not where.startswith("style") else val), "tags": list(p.seq),
                                    "benignTags": list(b.seq), "text": ok_text, "raised": "", "given": val[:80], "route": route})
            finally:
                os.chdir(cwd)
                shutil.rmtree(wd, ignore_errors=True)
    finally:
        cmain.generate_report = orig_gen
        vis.to_html_bulk = orig_bulk
    return evs


def main():
    t = vlib.tier()
    rnd = random.Random(vlib.seed() * 1000003 + 19)
    rep = vlib.Report(PID)
    rep.assumptions = ["TLC/SANY", "Python's html.parser as the HTML tokenizer of the written reports", "levels are computed by the library, not user text (not used as slots)"]
    rep.rule = ("every string of <= 3 symbols over a 24-symbol markup alphabet (as enumerated by TLC from Report.tla; quick: all of length <= 2 and a "
                "seeded sample of length 3; thorough: all, plus sampled length 4-6) x 5 user-controlled slots x 2 generators; end-to-end routes; "
                "distinct = distinct (generator, slot, string)")
    rep.add_model("MC_Report_full(MaxLen=3)", vlib.check_model("Report", "MC_Report_full.cfg"),
                  "escaping model is safe in content and attribute context for every string")
    for m in ("noquote", "none", "skipIfRef"):
        r = vlib.check_model("Report", f"MC_Report_{m}.cfg")
        if r.ok or "is violated" not in (r.error + r.stdout):
            raise vlib.MachineryError(f"regression configuration MC_Report_{m} must be rejected by TLC")
        rep.models.append(dict(model=f"MC_Report_{m}", expected="violation (unsafe escaping mode)", states_generated=r.generated))
    r, states = vlib.tlc_enumerate("Report", "MC_Report_full.cfg", "sym")
    strings = sorted({tuple(s) for s in states})
    rep.add_model("Report string generator", r, "abstract strings replayed into both report generators")
    rep.extra["strings_enumerated_by_tlc"] = len(strings)
    short = [s for s in strings if len(s) <= 2]
    long3 = [s for s in strings if len(s) == 3]
    chosen = short + (rnd.sample(long3, 700) if t == "quick" else long3)
    if t == "thorough":
        chosen += [tuple(rnd.randrange(1, len(SIGMA) + 1) for _ in range(rnd.randrange(4, 7))) for _ in range(6000)]
    jobs = []
    k = 0
    for s in chosen:
        if t == "thorough" or len(s) <= 1:
            for gen, slots in (("cli", CLI_SLOTS), ("api", API_SLOTS)):
                for slot in slots:
                    jobs.append((gen, slot, s))
        else:
            gen, slots = (("cli", CLI_SLOTS), ("api", API_SLOTS))[k % 2]
            slot = sorted(slots)[(k // 2) % len(slots)]
            jobs.append((gen, slot, s))
            gen2, slots2 = (("cli", CLI_SLOTS), ("api", API_SLOTS))[(k + 1) % 2]
            jobs.append((gen2, sorted(slots2)[(k // 3) % len(slots2)], s))
            k += 1
    # colour slots: the same strings wrapped in the overall shape of a colour value
    colour_slots = [("cli", "bg"), ("cli", "original_text"), ("cli", "tuned_text"), ("api", "bg"), ("api", "fg"), ("api", "tuned_fg")]
    wj = 0
    for s_ in [x for x in chosen if 1 <= len(x) <= 2] + (chosen if t == "thorough" else []):
        if t != "thorough" and len(s_) == 2 and wj % 7:
            wj += 1
            continue
        g_, sl_ = colour_slots[wj % len(colour_slots)]
        jobs.append((g_, sl_, s_, wj, 1 + wj % (len(WRAPS) - 1)))
        wj += 1
    # (a) dictionary: tokens that occur in the SOURCE of the two report generators (placeholders, markers, template words) used as
    #     user text - a late search-and-replace over the finished page would find them; (b) long texts: a short hostile string
    #     repeated until it holds dozens of metacharacters (an escaper with a budget runs out)
    words = source_dictionary()
    rep.extra["dictionary_words_from_generator_sources"] = len(words)
    allslots = [("cli", s_) for s_ in sorted(CLI_SLOTS)] + [("api", s_) for s_ in sorted(API_SLOTS)]
    for j, w in enumerate(words):
        g_, sl_ = allslots[j % len(allslots)]
        jobs.append((g_, sl_, (), j, 0, w))
        if t == "thorough":
            for g2, s2 in allslots:
                jobs.append((g2, s2, (), j, 0, w))
    for j, s_ in enumerate([x for x in short if len(x) == 2][:: (5 if t == "quick" else 1)]):
        g_, sl_ = allslots[j % len(allslots)]
        base = "".join(SIGMA[k - 1] for k in s_)
        jobs.append((g_, sl_, (), j, 0, base * 12))
        jobs.append((g_, sl_, (), j, 0, "<>&\"'" * 5 + base))
    res = vlib.pool_map(observe, jobs, chunksize=16)
    evs = [e for r_ in res for e in r_]
    evs += e2e(rnd, 60 if t == "quick" else 600)
    ids = {}
    for e in evs:
        e["tags"] = ids.setdefault(repr(e["tags"]), len(ids) + 1)
        e["benignTags"] = ids.setdefault(repr(e["benignTags"]), len(ids) + 1)
    B = 32
    traces = [evs[i:i + B] for i in range(0, len(evs), B)]
    cfg = "SPECIFICATION TSpec\nCONSTANTS MaxLen = 3\n          Mode = \"full\"\nPOSTCONDITION KitPost\nCHECK_DEADLOCK FALSE\n"
    agg = vlib.validate_traces("TrReport", traces, cfg=cfg)
    rep.add_traces(agg, len(traces))
    rep.evaluations = len(evs)
    rep.nontrivial = len({(e["gen"], e["slot"], e["given"]) for e in evs})
    rep.extra["end_to_end_renderings"] = sum(1 for e in evs if e["gen"].endswith("e2e"))
    rep.sample(next(e for e in evs if len(e["sym"]) == 3))
    e2 = [e for e in evs if e["gen"].endswith("e2e")]
    if e2:
        rep.sample(e2[0])
    rep.drift += sum(1 for b in agg["bad"] for x in b["incon"] if x.startswith("D_"))
    hits, more = vlib.pinpoint("TrReport", traces, agg) if False else ([], 0)
    bad_traces = [b for b in agg["bad"] if b["fails"]]
    if bad_traces:
        singles, origin = [], []
        for b in bad_traces[:30]:
            for j, e in enumerate(traces[b["tid"]]):
                singles.append([e]); origin.append((b["tid"], j))
        r2 = vlib.validate_traces("TrReport", singles, cfg=cfg)
        for b2 in r2["bad"]:
            if b2["fails"]:
                tid, j = origin[b2["tid"]]
                e = traces[tid][j]
                rep.violation("/".join(b2["fails"]), {"generator": e["gen"], "slot": e["slot"], "text": e["given"], "event": e,
                              "reproduce": "generate_report([...]) / to_html_bulk([...]) with `text` in the named field, parse the written file with html.parser"})
        if len(bad_traces) > 30:
            print(f"NOTE: {len(bad_traces) - 30} further failing batches not itemised")
    return rep.finish()


if __name__ == "__main__":
    vlib.main_wrapper(main)
