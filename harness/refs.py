"""Independent reference implementations used by the harness.

* wcag_*      : float WCAG luminance / ratio, used ONLY to steer input generators towards
                thresholds (verdicts come from Wcag.tla evaluated by TLC).
* oklab / oklch_line : Ottosson's OKLab matrices (reference for the C03 witness scan).
* ciede2000   : CIEDE2000 from the CIE formulae (Sharma, Wu, Dalal), checked against the
                published test pairs in selftest().  Oracle (assumption) of C03 / C04.
* css_parse   : CSS Color Level 3 value reader in exact rational arithmetic
                (fractions.Fraction), calibrated against CssColor.tla by the C07 check.
None of these import the library under test.
"""
import math, re
from fractions import Fraction

# ----------------------------------------------------------------------------- WCAG (generators only)

def _lin(v):
    c = v / 255.0
    return c / 12.92 if c <= 0.04045 else ((c + 0.055) / 1.055) ** 2.4


_LIN = [_lin(v) for v in range(256)]


def wcag_lum(c):
    return 0.2126 * _LIN[c[0]] + 0.7152 * _LIN[c[1]] + 0.0722 * _LIN[c[2]]


def wcag_ratio(a, b):
    la, lb = wcag_lum(a), wcag_lum(b)
    hi, lo = (la, lb) if la >= lb else (lb, la)
    return (hi + 0.05) / (lo + 0.05)


# ----------------------------------------------------------------------------- OKLab reference

def _cbrt(x):
    return math.copysign(abs(x) ** (1.0 / 3.0), x)


def rgb_to_oklab(c):
    r, g, b = _LIN[c[0]], _LIN[c[1]], _LIN[c[2]]
    l = 0.4122214708 * r + 0.5363325363 * g + 0.0514459929 * b
    m = 0.2119034982 * r + 0.6806995451 * g + 0.1073969566 * b
    s = 0.0883024619 * r + 0.2817188376 * g + 0.6299787005 * b
    l_, m_, s_ = _cbrt(l), _cbrt(m), _cbrt(s)
    return (0.2104542553 * l_ + 0.7936177850 * m_ - 0.0040720468 * s_,
            1.9779984951 * l_ - 2.4285922050 * m_ + 0.4505937099 * s_,
            0.0259040371 * l_ + 0.7827717662 * m_ - 0.8086757660 * s_)


def rgb_to_oklch(c):
    L, a, b = rgb_to_oklab(c)
    C = math.hypot(a, b)
    H = math.degrees(math.atan2(b, a)) % 360.0 if C > 1e-10 else 0.0
    return (min(1.0, max(0.0, L)), C, H)


def _gamma(x):
    return 12.92 * x if x <= 0.0031308 else 1.055 * x ** (1 / 2.4) - 0.055


def oklch_to_rgb(L, C, H):
    """OKLCH -> 8-bit sRGB, clipping linear components to [0,1] (the 'clipped to sRGB' of C03)."""
    a = C * math.cos(math.radians(H))
    b = C * math.sin(math.radians(H))
    l_ = L + 0.3963377774 * a + 0.2158037573 * b
    m_ = L - 0.1055613458 * a - 0.0638541728 * b
    s_ = L - 0.0894841775 * a - 1.2914855480 * b
    l, m, s = l_ ** 3, m_ ** 3, s_ ** 3
    r = +4.0767416621 * l - 3.3077115913 * m + 0.2309699292 * s
    g = -1.2684380046 * l + 2.6097574011 * m - 0.3413193965 * s
    bb = -0.0041960863 * l - 0.7034186147 * m + 1.7076147010 * s
    out = []
    for x in (r, g, bb):
        x = min(1.0, max(0.0, x))
        out.append(int(min(255, max(0, round(_gamma(x) * 255)))))
    return tuple(out)


# ----------------------------------------------------------------------------- CIE Lab / CIEDE2000 reference

_M = ((0.4124564, 0.3575761, 0.1804375), (0.2126729, 0.7151522, 0.0721750), (0.0193339, 0.1191920, 0.9503041))
_WP = (0.95047, 1.0, 1.08883)


def rgb_to_lab(c):
    r, g, b = _LIN[c[0]], _LIN[c[1]], _LIN[c[2]]
    xyz = [m[0] * r + m[1] * g + m[2] * b for m in _M]

    def f(t):
        return t ** (1 / 3) if t > 216 / 24389 else (24389 / 27 * t + 16) / 116

    fx, fy, fz = (f(xyz[i] / _WP[i]) for i in range(3))
    return (116 * fy - 16, 500 * (fx - fy), 200 * (fy - fz))


def ciede2000_lab(lab1, lab2):
    L1, a1, b1 = lab1
    L2, a2, b2 = lab2
    C1 = math.hypot(a1, b1)
    C2 = math.hypot(a2, b2)
    Cb = (C1 + C2) / 2
    G = 0.5 * (1 - math.sqrt(Cb ** 7 / (Cb ** 7 + 25.0 ** 7)))
    a1p, a2p = (1 + G) * a1, (1 + G) * a2
    C1p, C2p = math.hypot(a1p, b1), math.hypot(a2p, b2)

    def hp(b, ap):
        if b == 0 and ap == 0:
            return 0.0
        return math.degrees(math.atan2(b, ap)) % 360.0

    h1p, h2p = hp(b1, a1p), hp(b2, a2p)
    dLp = L2 - L1
    dCp = C2p - C1p
    if C1p * C2p == 0:
        dhp = 0.0
    else:
        d = h2p - h1p
        if abs(d) <= 180:
            dhp = d
        elif d > 180:
            dhp = d - 360
        else:
            dhp = d + 360
    dHp = 2 * math.sqrt(C1p * C2p) * math.sin(math.radians(dhp / 2))
    Lbp = (L1 + L2) / 2
    Cbp = (C1p + C2p) / 2
    if C1p * C2p == 0:
        hbp = h1p + h2p
    else:
        d = abs(h1p - h2p)
        if d <= 180:
            hbp = (h1p + h2p) / 2
        elif h1p + h2p < 360:
            hbp = (h1p + h2p + 360) / 2
        else:
            hbp = (h1p + h2p - 360) / 2
    T = (1 - 0.17 * math.cos(math.radians(hbp - 30)) + 0.24 * math.cos(math.radians(2 * hbp))
         + 0.32 * math.cos(math.radians(3 * hbp + 6)) - 0.20 * math.cos(math.radians(4 * hbp - 63)))
    dth = 30 * math.exp(-(((hbp - 275) / 25) ** 2))
    Rc = 2 * math.sqrt(Cbp ** 7 / (Cbp ** 7 + 25.0 ** 7))
    Sl = 1 + 0.015 * (Lbp - 50) ** 2 / math.sqrt(20 + (Lbp - 50) ** 2)
    Sc = 1 + 0.045 * Cbp
    Sh = 1 + 0.015 * Cbp * T
    Rt = -math.sin(math.radians(2 * dth)) * Rc
    return math.sqrt((dLp / Sl) ** 2 + (dCp / Sc) ** 2 + (dHp / Sh) ** 2 + Rt * (dCp / Sc) * (dHp / Sh))


_LABCACHE = {}


def ciede2000(c1, c2):
    c1, c2 = tuple(c1), tuple(c2)
    if c1 == c2:
        return 0.0
    l1 = _LABCACHE.get(c1)
    if l1 is None:
        l1 = _LABCACHE[c1] = rgb_to_lab(c1)
    l2 = _LABCACHE.get(c2)
    if l2 is None:
        l2 = _LABCACHE[c2] = rgb_to_lab(c2)
    if len(_LABCACHE) > 200000:
        _LABCACHE.clear()
    return ciede2000_lab(l1, l2)


def de4(c1, c2):
    """reference dE in units of 1e-4 (integer, rounded)."""
    return int(round(ciede2000(c1, c2) * 10000))


# Sharma, Wu, Dalal (2005) test data: (L1,a1,b1,L2,a2,b2,dE00)
_SWD = [
    (50.0000, 2.6772, -79.7751, 50.0000, 0.0000, -82.7485, 2.0425),
    (50.0000, 3.1571, -77.2803, 50.0000, 0.0000, -82.7485, 2.8615),
    (50.0000, 2.8361, -74.0200, 50.0000, 0.0000, -82.7485, 3.4412),
    (50.0000, -1.3802, -84.2814, 50.0000, 0.0000, -82.7485, 1.0000),
    (50.0000, -1.1848, -84.8006, 50.0000, 0.0000, -82.7485, 1.0000),
    (50.0000, -0.9009, -85.5211, 50.0000, 0.0000, -82.7485, 1.0000),
    (50.0000, 0.0000, 0.0000, 50.0000, -1.0000, 2.0000, 2.3669),
    (50.0000, -1.0000, 2.0000, 50.0000, 0.0000, 0.0000, 2.3669),
    (50.0000, 2.4900, -0.0010, 50.0000, -2.4900, 0.0009, 7.1792),
    (50.0000, 2.4900, -0.0010, 50.0000, -2.4900, 0.0010, 7.1792),
    (50.0000, 2.4900, -0.0010, 50.0000, -2.4900, 0.0011, 7.2195),
    (50.0000, 2.4900, -0.0010, 50.0000, -2.4900, 0.0012, 7.2195),
    (50.0000, -0.0010, 2.4900, 50.0000, 0.0009, -2.4900, 4.8045),
    (50.0000, -0.0010, 2.4900, 50.0000, 0.0010, -2.4900, 4.8045),
    (50.0000, -0.0010, 2.4900, 50.0000, 0.0011, -2.4900, 4.7461),
    (50.0000, 2.5000, 0.0000, 50.0000, 0.0000, -2.5000, 4.3065),
    (50.0000, 2.5000, 0.0000, 73.0000, 25.0000, -18.0000, 27.1492),
    (50.0000, 2.5000, 0.0000, 61.0000, -5.0000, 29.0000, 22.8977),
    (50.0000, 2.5000, 0.0000, 56.0000, -27.0000, -3.0000, 31.9030),
    (50.0000, 2.5000, 0.0000, 58.0000, 24.0000, 15.0000, 19.4535),
    (50.0000, 2.5000, 0.0000, 50.0000, 3.1736, 0.5854, 1.0000),
    (50.0000, 2.5000, 0.0000, 50.0000, 3.2972, 0.0000, 1.0000),
    (50.0000, 2.5000, 0.0000, 50.0000, 1.8634, 0.5757, 1.0000),
    (50.0000, 2.5000, 0.0000, 50.0000, 3.2592, 0.3350, 1.0000),
    (60.2574, -34.0099, 36.2677, 60.4626, -34.1751, 39.4387, 1.2644),
    (63.0109, -31.0961, -5.8663, 62.8187, -29.7946, -4.0864, 1.2630),
    (61.2901, 3.7196, -5.3901, 61.4292, 2.2480, -4.9620, 1.8731),
    (35.0831, -44.1164, 3.7933, 35.0232, -40.0716, 1.5901, 1.8645),
    (22.7233, 20.0904, -46.6940, 23.0331, 14.9730, -42.5619, 2.0373),
    (36.4612, 47.8580, 18.3852, 36.2715, 50.5065, 21.2231, 1.4146),
    (90.8027, -2.0831, 1.4410, 91.1528, -1.6435, 0.0447, 1.4441),
    (90.9257, -0.5406, -0.9208, 88.6381, -0.8985, -0.7239, 1.5381),
    (6.7747, -0.2908, -2.4247, 5.8714, -0.0985, -2.2286, 0.6377),
    (2.0776, 0.0795, -1.1350, 0.9033, -0.0636, -0.5514, 0.9082),
]


def selftest():
    worst = 0.0
    for L1, a1, b1, L2, a2, b2, ref in _SWD:
        d = ciede2000_lab((L1, a1, b1), (L2, a2, b2))
        worst = max(worst, abs(d - ref))
        d2 = ciede2000_lab((L2, a2, b2), (L1, a1, b1))
        worst = max(worst, abs(d2 - ref))
    if worst > 1e-4:
        raise AssertionError(f"CIEDE2000 reference disagrees with published pairs by {worst}")
    # OKLab: white -> L=1, a=b=0 ; round trip on a lattice
    L, a, b = rgb_to_oklab((255, 255, 255))
    if abs(L - 1) > 1e-3 or abs(a) > 1e-3 or abs(b) > 1e-3:
        raise AssertionError("OKLab reference: white is not (1,0,0)")
    for c in [(0, 0, 0), (255, 0, 0), (12, 200, 77), (254, 255, 1), (128, 128, 128)]:
        if oklch_to_rgb(*rgb_to_oklch(c)) != c:
            raise AssertionError(f"OKLCH reference round trip fails on {c}")
    return worst


# ----------------------------------------------------------------------------- CSS Color 3 reader (exact)

_NUM = r"[-+]?(?:\d+\.\d+|\.\d+|\d+)(?:[eE][-+]?\d+)?"
_WS = r"[ \t\r\n\f]*"
_NAMED = None


def _named():
    global _NAMED
    if _NAMED is None:
        import json, os
        p = os.path.join(os.path.dirname(os.path.abspath(__file__)), "css_named.json")
        _NAMED = json.load(open(p))
    return _NAMED


def _round_half_set(fr):
    """nearest integers to a non-negative Fraction (both on a tie)."""
    q = fr.numerator // fr.denominator
    rem = fr - q
    if rem * 2 < 1:
        return {q}
    if rem * 2 > 1:
        return {q + 1}
    return {q, q + 1}


def _clamp(fr, lo, hi):
    return max(Fraction(lo), min(Fraction(hi), fr))


def _hue_to_rgb(m1, m2, h):
    if h < 0:
        h += 1
    if h > 1:
        h -= 1
    if h * 6 < 1:
        return m1 + (m2 - m1) * h * 6
    if h * 2 < 1:
        return m2
    if h * 3 < 2:
        return m1 + (m2 - m1) * (Fraction(2, 3) - h) * 6
    return m1


def hsl_exact(h, s, l):
    """CSS Color 3 section 4.2.4 on Fractions: h in degrees (any), s,l in [0,1]. -> 3 Fractions in [0,1]."""
    h = (Fraction(h) % 360) / 360
    m2 = l * (s + 1) if l * 2 <= 1 else l + s - l * s
    m1 = l * 2 - m2
    return (_hue_to_rgb(m1, m2, h + Fraction(1, 3)), _hue_to_rgb(m1, m2, h), _hue_to_rgb(m1, m2, h - Fraction(1, 3)))


def css_parse(text):
    """Read a CSS Color 3 value.  Returns dict(kind, chans=[set,set,set] admissible 8-bit values per
    channel, alpha=Fraction or None) or None if the text is not a CSS Color 3 colour."""
    if not isinstance(text, str):
        return None
    s = text.strip(" \t\r\n\f")
    low = s.lower()
    if re.match(r"(rgba?|hsla?)\(", low) and low.count("(") == 1 and ")" not in low:
        # CSS Syntax 3: a function still open at the end of the value is closed there (a parse error that does not
        # invalidate the value) - 'rgb(1, 2, 3' is 'rgb(1, 2, 3)'
        low, s = low + ")", s + ")"
    if low in _named():
        v = _named()[low]
        return dict(kind="named", chans=[{int(v[i:i + 2], 16)} for i in (1, 3, 5)], alpha=None)
    m = re.fullmatch(r"#([0-9a-fA-F]{3})", s)
    if m:
        return dict(kind="hex3", chans=[{int(ch * 2, 16)} for ch in m.group(1)], alpha=None)
    m = re.fullmatch(r"#([0-9a-fA-F]{6})", s)
    if m:
        h = m.group(1)
        return dict(kind="hex6", chans=[{int(h[i:i + 2], 16)} for i in (0, 2, 4)], alpha=None)
    m = re.fullmatch(rf"(rgba?)\({_WS}({_NUM})(%?){_WS},{_WS}({_NUM})(%?){_WS},{_WS}({_NUM})(%?){_WS}(?:,{_WS}({_NUM}){_WS})?\)", low)
    if m:
        fn = m.group(1)
        pct = [m.group(3), m.group(5), m.group(7)]
        if len(set(pct)) != 1:
            return None
        if (fn == "rgba") != (m.group(8) is not None):
            return None
        chans = []
        for k in (2, 4, 6):
            v = Fraction(m.group(k))
            if pct[0]:
                v = _clamp(v, 0, 100) * 255 / 100
            else:
                if "." in m.group(k) or "e" in m.group(k).lower():
                    return None  # CSS3: integers only
                v = _clamp(v, 0, 255)
            chans.append(_round_half_set(v))
        alpha = _clamp(Fraction(m.group(8)), 0, 1) if m.group(8) is not None else None
        return dict(kind=fn, chans=chans, alpha=alpha)
    m = re.fullmatch(rf"(hsla?)\({_WS}({_NUM}){_WS},{_WS}({_NUM})%{_WS},{_WS}({_NUM})%{_WS}(?:,{_WS}({_NUM}){_WS})?\)", low)
    if m:
        fn = m.group(1)
        if (fn == "hsla") != (m.group(5) is not None):
            return None
        h = Fraction(m.group(2))
        sat = _clamp(Fraction(m.group(3)), 0, 100) / 100
        lig = _clamp(Fraction(m.group(4)), 0, 100) / 100
        chans = [_round_half_set(_clamp(c, 0, 1) * 255) for c in hsl_exact(h, sat, lig)]
        alpha = _clamp(Fraction(m.group(5)), 0, 1) if m.group(5) is not None else None
        return dict(kind=fn, chans=chans, alpha=alpha)
    return None


def lib_hsl_parse(text):
    """The library's documented extension of hsl(): saturation and lightness are EACH either a percentage or a fraction in
    [0, 1] ("percentage and fractional component values are supported", per token).  Returns the same shape as css_parse for
    opaque hsl() strings in which at least one of the two is a bare fraction; None otherwise (plain CSS goes through css_parse)."""
    if not isinstance(text, str):
        return None
    low = text.strip(" \t\r\n\f").lower()
    m = re.fullmatch(rf"hsl\({_WS}({_NUM}){_WS},{_WS}({_NUM})(%?){_WS},{_WS}({_NUM})(%?){_WS}\)", low)
    if not m or (m.group(3) and m.group(5)):
        return None
    h = Fraction(m.group(1))
    def comp(tok, pct):
        v = Fraction(tok)
        if pct:
            return _clamp(v, 0, 100) / 100
        if not (0 <= v <= 1):
            return None            # a bare number outside [0, 1] is not a fraction: the library refuses it
        return v
    sat, lig = comp(m.group(2), m.group(3)), comp(m.group(4), m.group(5))
    if sat is None or lig is None:
        return None
    chans = [_round_half_set(_clamp(c, 0, 1) * 255) for c in hsl_exact(h, sat, lig)]
    return dict(kind="hsl-lib", chans=chans, alpha=None)


def css4_parse(text, over=(255, 255, 255)):
    """Spellings of CSS Color 4 that CSS Color 3 does not have and whose meaning is nevertheless fixed by CSS: an hsl() hue with
    an angle unit (deg, grad, turn), and hex with an alpha digit pair (#rrggbbaa, #rgba) - the latter composited over `over`
    (white: what a translucent BACKGROUND goes over), admissible within 1.5 units like every composite.  The unchanged library
    refuses these spellings; a build that starts accepting them is held to this meaning."""
    if not isinstance(text, str):
        return None
    low = text.strip(" \t\r\n\f").lower()
    m = re.fullmatch(rf"hsl\({_WS}({_NUM})(deg|grad|turn){_WS},{_WS}({_NUM})%{_WS},{_WS}({_NUM})%{_WS}\)", low)
    if m:
        v = Fraction(m.group(1))
        h = v if m.group(2) == "deg" else v * 9 / 10 if m.group(2) == "grad" else v * 360
        sat = _clamp(Fraction(m.group(3)), 0, 100) / 100
        lig = _clamp(Fraction(m.group(4)), 0, 100) / 100
        return dict(kind="hsl-unit", chans=[_round_half_set(_clamp(c, 0, 1) * 255) for c in hsl_exact(h, sat, lig)], alpha=None)
    m = re.fullmatch(r"#([0-9a-f]{8}|[0-9a-f]{4})", low)
    if m:
        d = m.group(1)
        if len(d) == 4:
            d = "".join(ch * 2 for ch in d)
        rgb = [int(d[i:i + 2], 16) for i in (0, 2, 4)]
        a = Fraction(int(d[6:8], 16), 255)
        chans = []
        for c, o in zip(rgb, over):
            exact = c * a + o * (1 - a)
            lo, hi = exact - Fraction(3, 2), exact + Fraction(3, 2)
            chans.append({k for k in range(256) if lo <= k <= hi})
        return dict(kind="hex-alpha", chans=chans, alpha=None)
    return None


def css_read_opaque(text):
    """Read-back of an opaque CSS colour as a single 8-bit triple, or None when the value is not
    valid CSS, is translucent, or denotes a tie (two admissible values)."""
    r = css_parse(text)
    if r is None or r["alpha"] is not None:
        return None
    if any(len(c) != 1 for c in r["chans"]):
        return None
    return tuple(next(iter(c)) for c in r["chans"])
