\* regression: the fallback form before commit 'fix: CLI writes the adjusted colour for var(--x, fallback) text colours'
\* TLC must report ReportedIsWrittenModuloF6 violated
SPECIFICATION Spec
CONSTANTS RootPostOverwrites = FALSE
          FallbackWritten = FALSE
          CarryInvalid = TRUE
          HackPositions = {}
          NR = 2
INVARIANT Partition
INVARIANT CardMeetsTarget
INVARIANT FailedUnchanged
INVARIANT ReportedIsWrittenModuloKnown
INVARIANT ReportedIsWrittenModuloF6
CHECK_DEADLOCK FALSE
