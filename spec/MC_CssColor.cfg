SPECIFICATION Spec
INVARIANT WrapIdentity
INVARIANT SetsSane
INVARIANT GreyAtZeroSat
INVARIANT BlackWhite
INVARIANT Primaries
INVARIANT MilliConsistent
CHECK_DEADLOCK FALSE
