---- MODULE BulkLists ----
(***************************************************************************)
(* Generator of bulk-API inputs (spec -> code direction, C12): every list  *)
(* of at most MaxLen entries over entry kinds x arity.  An entry is        *)
(* <<kind, arity>> with                                                    *)
(*   kind : "pass" | "fixable" | "between" (passes as large text only) |   *)
(*          "unfixable" | "badtext" | "badbg" | "translucent" | "hsl"      *)
(*   arity: 2 (text, bg) | 3 (text, bg, TRUE) | 4 (text, bg, FALSE)        *)
(* Duplicates and every order are included by construction.                *)
(***************************************************************************)
EXTENDS Integers, Sequences
CONSTANTS MaxLen, Kinds
Entries == {<<k, a>> : k \in Kinds, a \in {2, 3, 4}}
VARIABLE lst
Init == lst = <<>>
Next == Len(lst) < MaxLen /\ \E e \in Entries : lst' = Append(lst, e)
Spec == Init /\ [][Next]_lst
====
