SPECIFICATION Spec
CONSTANTS MaxLen = 3
          Mode = "skipIfRef"
INVARIANT Safe
CHECK_DEADLOCK FALSE
