"""Recording of "pair traces": Construct(text,bg,large) -> Fix(mode,vr)* through the public ColorPair API,
plus (C04) the chain of multi-phase-search calls observed by wrapping the module attribute
cm_colors.core.optimisation.generate_accessible_color in the harness process.

Every field is a boolean, a short string, an 8-bit triple or an integer < 2^31 (TLC ints are 32 bit).
"""
import os, sys, math, random, json, re
sys.path.insert(0, os.path.dirname(os.path.abspath(__file__)))
import vlib, refs

ALL_RUNS = [(m, vr) for m in (1, 2, 0) for vr in (True, False)]

_CHAIN = None
_WRAPPED = None


def _install_wrapper():
    """Replace the multi-phase search attribute by a recording wrapper (harness process only)."""
    global _WRAPPED
    if _WRAPPED is not None:
        return _WRAPPED
    vlib.use_repo()
    try:
        import cm_colors.core.optimisation as opt
    except Exception:
        _WRAPPED = False
        return False
    orig = getattr(opt, "generate_accessible_color", None)
    if orig is None or not callable(orig):
        _WRAPPED = False
        return False

    def rec(text_rgb, bg_rgb, *a, **kw):
        out = orig(text_rgb, bg_rgb, *a, **kw)
        if _CHAIN is not None:
            seq = kw.get("delta_e_sequence")
            if seq is None and len(a) >= 4:
                seq = a[3]
            _CHAIN.append((tuple(text_rgb), None if seq is None else list(seq), out))
        return out

    rec.__wrapped__ = orig
    opt.generate_accessible_color = rec
    _WRAPPED = True
    return True


def is_rgb_ints(v):
    return (isinstance(v, (tuple, list)) and len(v) == 3
            and all(isinstance(x, int) and not isinstance(x, bool) and 0 <= x <= 255 for x in v))


EXPECT_FMT = {"hex6": "hex", "hex3": "hex", "hexnohash": "hex", "hexupper": "hex", "rgbfn": "rgbfn", "rgbpct": "rgbfn",
              "hslfn": "hslfn", "named": "hex", "tuple": "tuple", "list": "tuple", "rgbafn": "hex", "hslafn": "hex",
              "rgbatuple": "hex"}


def shape_of(v):
    """documented output shape class of a returned colour value."""
    if isinstance(v, tuple) and is_rgb_ints(v):
        return "tuple"
    if isinstance(v, str):
        s = v
        import re
        if re.fullmatch(r"#[0-9a-fA-F]{6}|#[0-9a-fA-F]{3}", s):
            return "hex"
        if s.startswith("rgb(") and s.endswith(")"):
            return "rgbfn"
        if s.startswith("hsl(") and s.endswith(")"):
            return "hslfn"
    return "other"


def readbacks(value):
    """(css, lib): 8-bit triples (lists) or [] - read-back by the CSS reference and by the library parser."""
    css, lib = [], []
    if isinstance(value, (tuple, list)):
        if is_rgb_ints(value):
            css = list(value)
        elif len(value) == 3 and all(type(v) is float and 0.0 <= v <= 1.0 for v in value):
            # three floats in [0, 1]: the parser's documented "fractional component values" - channel = the fraction of 255,
            # rounded (read here independently; a fraction exactly between two channels has no single reading)
            sc = [v * 255.0 for v in value]
            if all(abs((x % 1.0) - 0.5) > 1e-9 for x in sc):
                css = [int(x + 0.5) for x in sc]
    elif isinstance(value, str):
        r = refs.css_read_opaque(value)
        if r is not None:
            css = list(r)
    try:
        from cm_colors.core.color_parser import parse_color_to_rgb
        r = parse_color_to_rgb(value)
        if is_rgb_ints(r):
            lib = list(r)
    except Exception:
        lib = []
    return css, lib


def witness_scan(text, bg, min_ratio):
    """Independent scan of the text's OKLCH lightness line for a barely perceptible fix (C03):
    same chroma and hue (clipped to sRGB), dE2000 <= 1.5 and ratio >= min + 0.05, both with margins,
    and at least two distinct 8-bit witnesses.  Returns (witness_rgb, de4) or None; 'marginal' if only
    candidates inside the margins exist."""
    L0, C0, H0 = refs.rgb_to_oklch(text)
    seen = {}
    hits = {}
    marginal = False
    # outward from the text's own lightness in both directions (steps of 1e-4), until the colours are clearly beyond
    # dE 1.5 or the line ends; near black the OKLCH lightness of an 8-bit step is large, so the walk can be long
    for sgn in (1, -1):
        for k in range(0 if sgn > 0 else 1, 1600):
            L = L0 + sgn * k * 1e-4
            if L < 0 or L > 1:
                break
            c = refs.oklch_to_rgb(L, C0, H0)
            if c in seen or c == tuple(text):
                if c in seen:
                    hits[c] += 1
                continue
            d = refs.ciede2000(text, c)
            r = refs.wcag_ratio(c, bg)
            seen[c] = (d, r)
            hits[c] = 1
            if d > 1.7:
                break
    good = [(c, d) for c, (d, r) in seen.items() if d <= 1.5 - 0.02 and r >= min_ratio + 0.05 + 0.005]
    loose = [c for c, (d, r) in seen.items() if d <= 1.5 + 0.02 and r >= min_ratio + 0.05 - 0.005]
    # a single witness counts when it is not an accident of the sampling grid: two distinct colours, or one colour that a
    # whole stretch of the lightness line maps to (>= 12 consecutive samples = 1.2e-3 in L; the end points white / black)
    if len(good) >= 2 or (len(good) == 1 and hits[good[0][0]] >= 12):
        c, d = min(good, key=lambda x: x[1])
        return (c, int(round(d * 10000)))
    if loose:
        return "marginal"
    return None


def _REFPAIR(t, b, large):
    from cm_colors import ColorPair
    return ColorPair(tuple(t), tuple(b), large)


REQ = {(False, False): 4.5, (True, False): 3.0, (False, True): 7.0, (True, True): 4.5}


def record_one(spec):
    """spec: dict(text, bg, large, spell, runs=[(mode,vr)], witness=bool, chain=bool) -> behaviour (list of events)"""
    vlib.use_repo()
    global _CHAIN
    from cm_colors import ColorPair
    have_wrap = _install_wrapper() if spec.get("chain", True) else False
    text, bg, large = spec["text"], spec["bg"], bool(spec.get("large", False))
    beh = []
    try:
        pair = ColorPair(text, bg, large)
        valid = bool(pair.is_valid)
    except Exception as ex:  # C14's business; here the behaviour is just not usable
        return [{"e": "C", "spell": spec.get("spell", "?"), "large": large, "valid": False, "text": [], "bg": [],
                 "raised": type(ex).__name__, "mustParse": bool(spec.get("mustParse", False))}]
    if not valid or not is_rgb_ints(pair.text.rgb) or not is_rgb_ints(pair.bg.rgb):
        return [{"e": "C", "spell": spec.get("spell", "?"), "large": large, "valid": False, "text": [], "bg": [], "raised": "",
                 "mustParse": bool(spec.get("mustParse", False))}]
    t_rgb, b_rgb = tuple(pair.text.rgb), tuple(pair.bg.rgb)
    # the pair the CALLER gave is what the properties speak about: where a side is an opaque CSS Color 3 value, its meaning is
    # the CSS one (independent exact reader, calibrated against CssColor.tla in C07).  The library's own reading is used as long
    # as it is an admissible reading (rounding ties); otherwise the CSS meaning replaces it and every clause is judged on that
    css_override = []
    for side, val in (("text", text), ("bg", bg)):
        rr = (refs.css_parse(val) or refs.lib_hsl_parse(val) or (refs.css4_parse(val) if side == "bg" or not str(val).strip().startswith("#") else None)) if isinstance(val, str) else None
        if rr is not None and rr["alpha"] is None and not (side == "text" and spec.get("comp")):
            cur = t_rgb if side == "text" else b_rgb
            if not all(cur[k] in rr["chans"][k] for k in range(3)):
                fixed = tuple(min(rr["chans"][k], key=lambda v: abs(v - cur[k])) for k in range(3))
                css_override.append(side)
                if side == "text":
                    t_rgb = fixed
                else:
                    b_rgb = fixed
    try:
        readable = str(pair.is_readable)
    except Exception as ex:
        readable = "raised:" + type(ex).__name__
    beh.append({"e": "C", "spell": spec.get("spell", "?"), "large": large, "valid": True, "text": list(t_rgb),
                "bg": list(b_rgb), "raised": "", "readable": readable, "comp": spec.get("comp") or {"kind": "none"},
                "cssOverride": css_override})
    # the pair object itself may have travelled before it is used: through pickle (multiprocessing, caches) or copy.deepcopy -
    # a copy of a pair is that pair (the C event above describes the pair as constructed)
    if spec.get("copy"):
        try:
            import pickle, copy as _copy
            pair = pickle.loads(pickle.dumps(pair)) if spec["copy"] == "pickle" else _copy.deepcopy(pair) if spec["copy"] == "deepcopy" else _copy.copy(pair)
        except Exception as ex:
            beh.append({"e": "F", "mode": 1, "vr": False, "show": False, "raised": "copy:" + type(ex).__name__, "ok": False, "okbool": False, "shape": "other",
                        "css": [], "lib": [], "de4": -1, "wit": [], "witDe4": -1, "witKind": "none", "chain": [], "haveChain": False, "ref": []})
            return beh
    # a history of other calls in the same process before this pair's runs (not recorded: what matters is that they happened)
    for (pt, pb, plg, pm, pvr) in spec.get("prelude", []):
        try:
            ColorPair(tuple(pt), tuple(pb), plg).make_readable(mode=pm, very_readable=pvr)
        except Exception:
            pass
    wit_cache = {}
    for run in spec.get("runs", ALL_RUNS):
        mode, vr = run[0], run[1]
        show = (len(run) > 2 and run[2] == 1) or (len(run) > 2 and run[2] is True)
        savefault = len(run) > 2 and run[2] == 2 and run[2] is not True
        _CHAIN = [] if have_wrap else None
        raised = ""
        try:
            if savefault:
                # a report is asked for where it cannot be written (its name is taken by a directory): the call may pass the
                # OS's error on - then there is no answer to judge; an answer that IS returned is judged like any other
                import io, contextlib, tempfile, shutil
                d_, cwd_ = tempfile.mkdtemp(prefix="verif_sf_"), os.getcwd()
                os.makedirs(os.path.join(d_, "cm_colors_quick_report.html"))
                os.chdir(d_)
                try:
                    with contextlib.redirect_stdout(io.StringIO()):
                        ret = pair.make_readable(mode=mode, very_readable=vr, save_report=True)
                except OSError:
                    continue
                finally:
                    os.chdir(cwd_)
                    shutil.rmtree(d_, ignore_errors=True)
            elif show:       # the console preview must not change what is returned (C06 / C17); its output is discarded here
                import io, contextlib
                with contextlib.redirect_stdout(io.StringIO()):
                    ret = pair.make_readable(mode=mode, very_readable=vr, show=True)
            elif (mode + int(bool(vr)) + int(bool(spec.get("large")))) % 3 == 0:
                # the documented parameter order given by position: make_readable(mode, very_readable, show, save_report)
                ret = pair.make_readable(mode, vr, False, False)
            else:
                ret = pair.make_readable(mode=mode, very_readable=vr)
        except Exception as ex:
            ret, raised = None, type(ex).__name__
        chain_raw, _CHAIN = _CHAIN, None
        ev = {"e": "F", "mode": mode, "vr": bool(vr), "show": show, "raised": raised, "ok": False, "okbool": False, "shape": "other",
              "css": [], "lib": [], "de4": -1, "wit": [], "witDe4": -1, "witKind": "none", "chain": [], "haveChain": bool(have_wrap), "ref": []}
        if isinstance(ret, tuple) and len(ret) == 2:
            val, ok = ret
            ev["okbool"] = isinstance(ok, bool)
            ev["ok"] = bool(ok)
            ev["shape"] = shape_of(val)
            css, lib = readbacks(val)
            ev["css"], ev["lib"] = css, lib
            if css:
                ev["de4"] = refs.de4(t_rgb, css)
        if spec.get("ref"):
            try:
                rr = _REFPAIR(t_rgb, b_rgb, large).make_readable(mode=mode, very_readable=vr)
                if isinstance(rr, tuple) and len(rr) == 2 and is_rgb_ints(rr[0]) and isinstance(rr[0], tuple):
                    ev["ref"] = list(rr[0])
            except Exception:
                pass
        if spec.get("witness"):
            key = (large, bool(vr))
            if key not in wit_cache:
                m = REQ[key]
                if refs.wcag_ratio(t_rgb, b_rgb) >= m:
                    wit_cache[key] = None
                else:
                    wit_cache[key] = witness_scan(t_rgb, b_rgb, m)
            w = wit_cache[key]
            if w == "marginal":
                ev["witKind"] = "marginal"
            elif w is not None:
                ev["wit"], ev["witDe4"], ev["witKind"] = list(w[0]), w[1], "witness"
        if chain_raw:
            for cin, seq, cout in chain_raw:
                cap = 5.0 if seq is None else (max(seq) if len(seq) else 0.0)
                okout = is_rgb_ints(cout)
                ev["chain"].append({"in": list(cin), "cap4": int(round(cap * 10000)), "out": list(cout) if okout else [],
                                    "de4": refs.de4(cin, cout) if okout else -1,
                                    "sched": "default" if seq is None else ("step" if cap <= 3.0 else "relaxed")})
        beh.append(ev)
    return beh


def record(specs):
    return vlib.pool_map(record_one, specs, chunksize=4)


# ----------------------------------------------------------------------------- input generators

class RGB(tuple):
    """a tuple subclass with named fields (what collections.namedtuple / typing.NamedTuple give): still a tuple"""
    __slots__ = ()

    def __new__(cls, r, g, b):
        return tuple.__new__(cls, (r, g, b))

    def __getnewargs__(self):          # (pickling: the constructor takes three arguments, like a namedtuple's)
        return tuple(self)

    r = property(lambda self: self[0])
    g = property(lambda self: self[1])
    b = property(lambda self: self[2])

    def __repr__(self):
        return "RGB(r=%r, g=%r, b=%r)" % tuple(self)


class Token(str):
    """a str subclass whose str() is NOT its value (what `class Token(str, Enum)` members are): still a string with that value"""
    def __str__(self):
        return "Token.BRAND"

    def __repr__(self):
        return "<Token.BRAND: %s>" % str.__repr__(self)


class ColourList(list):
    """a list subclass: still a list"""


def hexs(c):
    return "#%02x%02x%02x" % tuple(c)


def spell(c, kind, rnd):
    """render the 8-bit colour c in a spelling of the given kind (exact where the kind can express it)."""
    r, g, b = c
    if kind == "hex6":
        return hexs(c)
    if kind == "hexupper":
        return hexs(c).upper()
    if kind == "hexnohash":
        return hexs(c)[1:]
    if kind == "hex3":
        return "#%x%x%x" % (r // 17, g // 17, b // 17)
    if kind == "rgbfn":
        return f"rgb({r}, {g}, {b})"
    if kind == "rgbpct":
        return "rgb(%s%%, %s%%, %s%%)" % tuple(round(v * 100 / 255, 1) for v in c)
    if kind == "tuple":
        return (r, g, b)
    if kind == "list":
        return [r, g, b]
    if kind == "rgbfnsub":
        return Token(f"rgb({r}, {g}, {b})")
    if kind == "hslfnsub":
        return Token("hsl(%d, %d%%, %d%%)" % _rgb_to_hsl_int(c))
    if kind == "rgba3fn":
        # rgba() WITHOUT its optional alpha component: still an rgba() string
        return rnd.choice([f"rgba({r}, {g}, {b})", f"RGBA({r} {g} {b})", f"rgba({r},{g},{b})"])
    if kind == "rgbfnopen":
        # the function left open at the end of the value (CSS closes it there)
        return rnd.choice([f"rgb({c[0]}, {c[1]}, {c[2]}", f"rgb({c[0]},{c[1]},{c[2]} ", f"RGB( {c[0]} , {c[1]} , {c[2]}"])
    if kind == "fractuple":
        # the colour as fractions of 255 in [0, 1] (floats): round(f * 255) is the channel
        return tuple(v / 255 for v in c) if c not in ((0, 0, 0), (1, 1, 1)) or True else c
    if kind == "tuplesub":
        return RGB(r, g, b)
    if kind == "listsub":
        return ColourList([r, g, b])
    if kind == "rgbafn":
        return f"rgba({r}, {g}, {b}, {rnd.choice(['0.5', '0.8', '0.93', '1', '0.25', '50', '80', '100'])})"
    if kind == "rgbatuple":
        return (r, g, b, rnd.choice([0.5, 0.8, 0.93, 1.0, 0.3, 50, 80, 100]))
    if kind == "hslfn":
        from_hsl = _rgb_to_hsl_int(c)
        return "hsl(%d, %d%%, %d%%)" % from_hsl
    if kind == "hslodd":
        # an hsl() text denoting EXACTLY c (six decimals), its hue written a whole number of turns away (negative / > 360):
        # equivalent in CSS; near-black and near-grey colours give saturations / lightnesses below 1 %
        txt = hsl_exact_text(c)
        if txt is None:
            return hexs(c)
        m = re.match(r"hsl\(([-0-9.]+), (.*)\)$", txt)
        hue = float(m.group(1)) + rnd.choice([-360, -720, 360, -360])
        alt = "hsl(%.6f, %s)" % (hue, m.group(2))
        return alt if refs.css_read_opaque(alt) == tuple(c) else txt
    if kind == "hslmixed":
        # the library's own extension of hsl(): one of saturation / lightness as a percentage, the other as a bare fraction
        import colorsys
        h_, l_, s_ = colorsys.rgb_to_hls(c[0] / 255, c[1] / 255, c[2] / 255)
        txt = ("hsl(%.6f, %.6f%%, %.8f)" % (h_ * 360, s_ * 100, l_)) if rnd.random() < 0.5 else ("hsl(%.6f, %.8f, %.6f%%)" % (h_ * 360, s_, l_ * 100))
        rr = refs.lib_hsl_parse(txt)
        if rr is not None and all(ch == {v} for ch, v in zip(rr["chans"], c)):
            return txt
        return hexs(c)
    if kind == "hslunit":
        # CSS Color 4: the hue with an angle unit (whole degrees that are exact in turns and grads: multiples of 9)
        h_, s_, l_ = _rgb_to_hsl_int(c)
        h_ = (h_ // 9) * 9
        return rnd.choice(["hsl(%sturn, %d%%, %d%%)" % (("%.3f" % (h_ / 360)).rstrip("0").rstrip(".") or "0", s_, l_),
                           "hsl(%dgrad, %d%%, %d%%)" % (h_ * 10 // 9, s_, l_), "hsl(%ddeg, %d%%, %d%%)" % (h_, s_, l_)])
    if kind == "hex8":
        return "#%02x%02x%02x%s" % (r, g, b, rnd.choice(["00", "33", "80", "cc", "ff", "1a"]))
    if kind == "hslafn":
        h, s, l = _rgb_to_hsl_int(c)
        return "hsla(%d, %d%%, %d%%, %s)" % (h, s, l, rnd.choice(["0.5", "0.85", "1", "0.4"]))
    if kind == "named":
        names = list(refs._named().keys())
        return rnd.choice(names)
    raise ValueError(kind)


def _rgb_to_hsl_int(c):
    import colorsys
    h, l, s = colorsys.rgb_to_hls(c[0] / 255, c[1] / 255, c[2] / 255)
    return (int(round(h * 360)) % 360, int(round(s * 100)), int(round(l * 100)))


SPELLS = ["hex6", "hex3", "hexnohash", "hexupper", "rgbfn", "rgbpct", "hslfn", "named", "tuple", "list", "rgbafn",
          "hslafn", "rgbatuple", "tuplesub", "listsub", "hslodd", "rgbfnsub", "hslfnsub", "rgba3fn", "fractuple", "rgbfnopen"]


def rand_colour(rnd):
    return (rnd.randrange(256), rnd.randrange(256), rnd.randrange(256))


def near_threshold(rnd, t, below_frac=(0.0, 0.25), tries=400):
    """a pair whose ratio lies within [t*(1-hi), t*(1-lo)] (below the requirement t) or just above it."""
    for _ in range(tries):
        bg = rand_colour(rnd)
        base = rand_colour(rnd)
        lb = refs.wcag_lum(bg)
        # move text along the segment base->black/white and pick points by ratio
        end = rnd.choice([(0, 0, 0), (255, 255, 255)])
        ks = list(range(0, 256, 3))
        rnd.shuffle(ks)
        for k in ks[:40]:
            c = tuple(int(round(base[i] + (end[i] - base[i]) * k / 255.0)) for i in range(3))
            r = refs.wcag_ratio(c, bg)
            if t * (1 - below_frac[1]) <= r <= t * (1 - below_frac[0]):
                return c, bg
    return rand_colour(rnd), rand_colour(rnd)


def near_background(rnd):
    """text within a small step of the background: needs several default-mode steps (C16/C04 chains)."""
    bg = rand_colour(rnd)
    d = rnd.choice([3, 6, 10, 16, 25, 40])
    t = tuple(min(255, max(0, v + rnd.randint(-d, d))) for v in bg)
    return t, bg


def saturated(rnd):
    """a colour near the gamut edge: one channel near 0, one high."""
    ch = [rnd.randrange(0, 20), rnd.randrange(120, 256), rnd.randrange(256)]
    rnd.shuffle(ch)
    return tuple(ch)


def isoluminant(rnd, tries=4000):
    """low-contrast pair of different hues whose WCAG-luminance order is the OPPOSITE of their OKLCH-lightness order:
    the situation in which any lightness-based direction rule can walk the text towards and across the background."""
    for _ in range(tries):
        a, b = saturated(rnd), saturated(rnd)
        r = refs.wcag_ratio(a, b)
        if r > 1.4 or a == b:
            continue
        la, lb = refs.wcag_lum(a), refs.wcag_lum(b)
        La, Lb = refs.rgb_to_oklch(a)[0], refs.rgb_to_oklch(b)[0]
        if (la - lb) * (La - Lb) < 0:
            return a, b
    return saturated(rnd), saturated(rnd)


def hairline(rnd, t, tries=60):
    """a pair whose ratio lies within 0.005 BELOW the requirement t (rounding to two decimals would lift it onto t), or
    within 0.005 above it: found by scanning a small cube of colours around the point where a grey line crosses t."""
    for _ in range(tries):
        bg = rand_colour(rnd)
        lb = refs.wcag_lum(bg)
        up = lb < 0.18
        prev = None
        for k in range(256):
            g = k if up else 255 - k
            r = refs.wcag_ratio((g, g, g), bg)
            if r >= t:
                centre = g
                break
        else:
            continue
        best = []
        for dr in range(-5, 6):
            for dg in range(-3, 4):
                for db in range(-6, 7):
                    c = (centre + dr, centre + dg, centre + db)
                    if min(c) < 0 or max(c) > 255:
                        continue
                    r = refs.wcag_ratio(c, bg)
                    if t - 0.005 <= r < t:
                        best.append((c, "below"))
                    elif t <= r < t + 0.004:
                        best.append((c, "above"))
        below = [c for c, w in best if w == "below"]
        above = [c for c, w in best if w == "above"]
        if below and (rnd.random() < 0.75 or not above):
            return rnd.choice(below), bg
        if above:
            return rnd.choice(above), bg
    return near_threshold(rnd, t, (-0.002, 0.002))


def cube_corner(rnd):
    """a colour on or next to a corner / edge of the RGB cube (channels clipped at the gamut boundary)"""
    def ext():
        return rnd.choice([rnd.randrange(0, 4), rnd.randrange(252, 256)])
    ch = [ext(), ext(), ext() if rnd.random() < 0.6 else rnd.randrange(256)]
    rnd.shuffle(ch)
    return tuple(ch)


def corner_pair(rnd, tries=400):
    """low-contrast pair whose text sits at the gamut boundary (e.g. yellow on lime, cyan on white)"""
    for _ in range(tries):
        a = cube_corner(rnd)
        b = cube_corner(rnd) if rnd.random() < 0.6 else saturated(rnd)
        if a != b and refs.wcag_ratio(a, b) < 1.6:
            return a, b
    return cube_corner(rnd), cube_corner(rnd)


def zero_one_pair(rnd):
    """spellings that compare equal (1 == 1.0 == True) but denote different colours: int channels in {0,1} are 0..255
    values, floats in [0,1] are normalised, so (1,1,1) is almost black and (1.0,1.0,1.0) is white"""
    ints = tuple(rnd.choice((0, 1)) for _ in range(3))
    flo = tuple(float(rnd.choice((0, 1))) for _ in range(3))
    forms = [ints, list(ints), "#%02x%02x%02x" % ints, tuple(bool(x) for x in ints), flo, list(flo)]
    return rnd.choice(forms), rnd.choice(forms)


def edge_near_threshold(rnd, t, tries=30000):
    """text with a channel at the gamut boundary (0 or 255) whose ratio lies within 2 % BELOW the requirement t:
    the smallest useful change then has to move the other channels"""
    for _ in range(tries):
        bg = rand_colour(rnd)
        c = [rnd.randrange(256), rnd.randrange(256), rnd.randrange(256)]
        c[rnd.randrange(3)] = rnd.choice((0, 255))
        if rnd.random() < 0.45:
            c[rnd.randrange(3)] = rnd.choice((0, 255))
        r = refs.wcag_ratio(c, bg)
        if 0.98 * t <= r < t:
            return tuple(c), bg
    return near_threshold(rnd, t, (0.0, 0.025))


def _scan_hairline(job):
    """(text, bg, large, vr, mode) -> the job if the returned colour's ratio lands within 0.005 below (or 0.002 above)
    a label threshold; used only to SELECT inputs - the verdict on them is TLC's"""
    vlib.use_repo()
    from cm_colors import ColorPair
    t, b, large, vr, mode = job
    try:
        val, ok = ColorPair(t, b, large).make_readable(mode=mode, very_readable=vr)
    except Exception:
        return None
    if not is_rgb_ints(val) or tuple(val) == tuple(t):
        return None
    r = refs.wcag_ratio(val, b)
    for th in ((3.0, 4.5) if large else (4.5, 7.0)):
        if th - 0.005 <= r < th + 0.002:
            return job
    return None


def hairline_results(rnd, nscan):
    """pairs (as tuples) whose TUNED colour lands on the hairline of a threshold"""
    jobs = []
    for k in range(nscan):
        large = bool(k & 1)
        vr = bool(k & 2)
        t, b = near_threshold(rnd, rnd.choice((3.0, 4.5, 7.0)), (0.02, 0.35))
        jobs.append((t, b, large, vr, 0 if k % 3 else 1))
    return [j for j in vlib.pool_map(_scan_hairline, jobs, chunksize=16) if j]


_EQUILUM = {}


def equilum(rnd):
    """two different colours of (almost) exactly the same WCAG luminance (within 2e-5): any OTHER lightness measure - L*, OKLCH L,
    a rounded weight set - may order them the other way round"""
    key = id(rnd)
    if key not in _EQUILUM:
        samp = sorted((rand_colour(rnd) for _ in range(30000)), key=refs.wcag_lum)
        _EQUILUM[key] = [(a, b) for a, b in zip(samp, samp[1:]) if a != b and abs(refs.wcag_lum(a) - refs.wcag_lum(b)) < 2e-5
                         and max(abs(a[i] - b[i]) for i in range(3)) > 40]
    prs = _EQUILUM[key]
    a, b = rnd.choice(prs)
    return (a, b) if rnd.getrandbits(1) else (b, a)


def _scan_fallback(job):
    """(text, bg, large, vr) -> the job if mode 1 gives up and mode 2 succeeds (the relaxed strategy's fallback options decide);
    used only to SELECT the calls that make up a history"""
    vlib.use_repo()
    from cm_colors import ColorPair
    t, b, large, vr = job
    try:
        _v1, ok1 = ColorPair(t, b, large).make_readable(mode=1, very_readable=vr)
        _v2, ok2 = ColorPair(t, b, large).make_readable(mode=2, very_readable=vr)
    except Exception:
        return None
    return job if (not ok1 and ok2) else None


def fallback_pairs(rnd, nscan):
    jobs = []
    for k in range(nscan):
        t, b = near_background(rnd) if k % 2 else near_threshold(rnd, rnd.choice((4.5, 7.0)), (0.45, 0.75))
        jobs.append((t, b, bool(k & 2), bool(k & 4)))
    return [j for j in vlib.pool_map(_scan_fallback, jobs, chunksize=8) if j]


def _scan_plateau(job):
    """(text, bg, large, vr) -> the job if a hard witness exists (dE >= 1.05) AND the documented lightness search, asked with
    growing tolerances 0.8, 1.0, ... 2.4, returns the same colour for three tolerances in a row and a different one later (the
    8-bit candidates on this text's lightness line are unevenly spaced).  Used only to SELECT inputs."""
    vlib.use_repo()
    t, b, large, vr = job
    tq = REQ[(large, vr)]
    w = witness_scan(t, b, tq)
    if not (isinstance(w, tuple) and w[1] >= 10500):
        return None
    import importlib
    opt = importlib.import_module("cm_colors.core.optimisation")
    f = getattr(opt, "binary_search_lightness", None)
    f = getattr(f, "__wrapped__", f)
    if f is None:
        return None
    res = []
    for k in range(9):
        try:
            res.append(f(tuple(t), tuple(b), 0.8 + 0.2 * k, 4.5 if large else 7.0, large))
        except Exception:
            return None
    for i in range(len(res) - 3):
        if res[i] is not None and res[i] == res[i + 1] == res[i + 2] and any(r != res[i] for r in res[i + 3:]):
            return job
    return None


def plateau_pairs(rnd, nscan):
    jobs = []
    for _ in range(nscan):
        large, vr = bool(rnd.getrandbits(1)), bool(rnd.getrandbits(1))
        tq = REQ[(large, vr)]
        g_ = rnd.randrange(8, 248)
        c = tuple(min(255, max(0, g_ + rnd.randint(-6, 6))) for _ in range(3))
        lt = refs.wcag_lum(c)
        want = tq * rnd.uniform(0.93, 0.99)
        lb = (lt + 0.05) / want - 0.05 if lt > 0.2 else want * (lt + 0.05) - 0.05
        if not 0 <= lb <= 1:
            continue
        g = min(range(256), key=lambda v: abs(refs._LIN[v] - lb))
        if tq * 0.92 <= refs.wcag_ratio(c, (g, g, g)) < tq:
            jobs.append((c, (g, g, g), large, vr))
    return [j for j in vlib.pool_map(_scan_plateau, jobs, chunksize=8) if j]


def extreme_only(rnd, tries=20000):
    """(text, bg, very_readable, large): the text is a hair away from white (or black) and only the extreme itself - the
    end point of the text's lightness line, reached only when every clipped channel is rounded to 255 (or 0) - clears the
    requirement by the 0.05 margin: the background is picked so that the extreme clears it by 0.056..1.2 %"""
    for _ in range(tries):
        large, vr = bool(rnd.getrandbits(1)), bool(rnd.getrandbits(1))
        tq = REQ[(large, vr)]
        white = bool(rnd.getrandbits(1))
        ext = (255, 255, 255) if white else (0, 0, 0)
        bg = rand_colour(rnd) if rnd.random() < 0.7 else (rnd.randrange(256),) * 3
        r = refs.wcag_ratio(ext, bg)
        if not (tq + 0.056 <= r <= max(tq * 1.012, tq + 0.09)):
            continue
        for _k in range(30):
            if white:
                g = rnd.randrange(247, 254)
                c = [g, g, g]
                if rnd.random() < 0.4:
                    c[rnd.randrange(3)] = min(255, g + rnd.choice([1, 2]))
            else:
                g = rnd.randrange(1, 6)
                c = [g, g, g]
                if rnd.random() < 0.4:
                    c[rnd.randrange(3)] = max(0, g - 1)
            c = tuple(c)
            if refs.wcag_ratio(c, bg) < tq - 0.01 and refs.ciede2000(c, ext) <= 1.42:
                return c, bg, vr, large
    a, b = near_threshold(rnd, 4.5, (0.0, 0.05))
    return a, b, False, False


_SPECIAL = None


def special_colour(rnd, kind=None):
    """a colour from the catalogue of numerically special OKLCH coordinates (tools/gen_special_colours.py); inputs only"""
    global _SPECIAL
    if _SPECIAL is None:
        with open(os.path.join(os.path.dirname(os.path.abspath(__file__)), "special_colours.json")) as f:
            _SPECIAL = json.load(f)
    k = kind or rnd.choice(sorted(_SPECIAL))
    return tuple(rnd.choice(_SPECIAL[k]))


_RAZOR = None


def razor_all():
    """catalogue of pairs within 3e-7 of a label threshold (tools/gen_razor_pairs.py); inputs only"""
    global _RAZOR
    if _RAZOR is None:
        with open(os.path.join(os.path.dirname(os.path.abspath(__file__)), "razor_pairs.json")) as f:
            _RAZOR = json.load(f)
    return _RAZOR


def razor(rnd, t=None, side=None):
    """(text, bg) with ratio within 3e-7 of t, on the given side ('above'/'below'), text/background roles random"""
    cat = razor_all()
    # (40 %: the ultra-razor part of the catalogue, within 1e-9 of the threshold)
    ultra = rnd.random() < 0.4
    keys = [k for k in sorted(cat) if k.startswith("ultra_") == ultra and (t is None or k.replace("ultra_", "").startswith(f"{float(t)}_"))
            and (side is None or f"_{side}_" in k)]
    a, b = rnd.choice(cat[rnd.choice(keys)])
    a, b = tuple(a), tuple(b)
    return (a, b) if rnd.getrandbits(1) else (b, a)


def neargrey(rnd):
    """an almost-grey colour: channels within 1..4 levels of each other (faint tint)"""
    g = rnd.randrange(4, 252)
    d = rnd.choice([1, 1, 2, 3, 4])
    c = [g, g, g]
    k = rnd.randrange(3)
    c[k] = g + rnd.choice([-d, d])
    if rnd.random() < 0.5:
        c[(k + 1) % 3] = g + rnd.choice([-1, 0, 1])
    return tuple(min(255, max(0, v)) for v in c)


def hsl_exact_text(c):
    """an hsl() spelling (6 decimals) that denotes exactly the 8-bit colour c, or None"""
    import colorsys
    h, l, s_ = colorsys.rgb_to_hls(c[0] / 255, c[1] / 255, c[2] / 255)
    txt = "hsl(%.6f, %.6f%%, %.6f%%)" % (h * 360, s_ * 100, l * 100)
    return txt if refs.css_read_opaque(txt) == tuple(c) else None


def translucent_over(c, bg, rnd):
    """a translucent spelling whose source-over composite on bg is (about) the colour c, in rgba()/informal forms the
    parser accepts as four-number colours; None when c is not reachable with the chosen alpha"""
    for a in (0.5, 0.6, 0.8, 0.4):
        fg = [round((c[i] - (1 - a) * bg[i]) / a) for i in range(3)]
        if all(0 <= v <= 255 for v in fg):
            form = rnd.randrange(6)
            r, g, b = fg
            txt = [f"rgba({r}, {g}, {b}, {a})", f"rgb({r} {g} {b} / {a})", f"rgb({r}, {g}, {b}, {a})", f"{r}, {g}, {b}, {a}",
                   (r, g, b, a), f"({r}, {g}, {b}, {a})"][form]
            LAST_COMP[0] = {"kind": "rgb", "v": [r, g, b], "an": int(round(a * 1000)), "ad": 1000, "bgv": list(bg), "ban": 1000, "bad": 1000}
            return txt
    return None


LAST_COMP = [None]     # abstract description of the last translucent spelling produced (for TrPair's composite clause)


_LUMB = None


def ultra_hairline(rnd, dark, t, span=0.0009):
    """partners of the dark colour `dark` whose ratio lies within `span` below (or just above) the requirement t:
    for each (r, g) the blue level is solved from the luminance tables; -> list of (partner, ratio)"""
    global _LUMB
    import bisect
    if _LUMB is None:
        _LUMB = [0.0722 * refs._LIN[v] for v in range(256)]
    ld = refs.wcag_lum(dark)
    need = t * (ld + 0.05) - 0.05
    out = []
    for r in range(0, 256, rnd.choice((1, 2, 3))):
        lr = 0.2126 * refs._LIN[r]
        if lr > need + 1e-9:
            break
        for g in range(rnd.randrange(2), 256, 2):
            rest = need - lr - 0.7152 * refs._LIN[g]
            if rest < -1e-4:
                break
            if rest > _LUMB[255] + 1e-4:
                continue
            b = bisect.bisect_left(_LUMB, rest)
            for bb in (b - 1, b):
                if 0 <= bb <= 255:
                    c = (r, g, bb)
                    ratio = refs.wcag_ratio(c, dark)
                    if t - span <= ratio < t + span / 3:
                        out.append((c, ratio))
    return out
