SPECIFICATION Spec
CONSTANTS MaxLen = 3
          Kinds = {"pass", "fixable", "between", "unfixable", "badtext", "badbg", "translucent", "hsl", "extreme", "twinA", "twinB", "hairres", "digits"}
CHECK_DEADLOCK FALSE
