---- MODULE MC_Wcag ----
(***************************************************************************)
(* Design-level self-consistency of the WCAG definition module over all    *)
(* 65,536 grey x grey pairs (and the same pairs tinted per channel).       *)
(***************************************************************************)
EXTENDS Wcag, TLC
VARIABLES g1, g2, ch
vars == <<g1, g2, ch>>
Col(g, c) == CASE c = 0 -> <<g, g, g>> [] c = 1 -> <<g, 0, 0>> [] c = 2 -> <<0, g, 0>> [] OTHER -> <<0, 0, g>>
Init == g1 \in 0..255 /\ g2 = -1 /\ ch \in 0..3
\* the second colour is chosen by a step so that the 16 workers share the evaluation
Next == g2 = -1 /\ g2' \in 0..255 /\ UNCHANGED <<g1, ch>>
Spec == Init /\ [][Next]_vars
A == Col(g1, ch)
B == Col(IF g2 < 0 THEN g1 ELSE g2, ch)
Symmetric == Ratio6(A, B) = Ratio6(B, A) /\ \A rq \in {<<3,1>>, <<9,2>>, <<7,1>>} : Meets(A, B, rq) = Meets(B, A, rq)
Range == Ratio6(A, B) >= 1000000 /\ Ratio6(A, B) <= 21000000
Diagonal == A = B => Ratio6(A, B) = 1000000
Only21 == Ratio6(A, B) = 21000000 <=> {A, B} = {<<0,0,0>>, <<255,255,255>>}
\* threshold comparison agrees with the ratio in millionths wherever it is conclusive
CmpAgrees == \A rq \in {<<3,1>>, <<9,2>>, <<7,1>>} :
   LET t6 == (rq[1] * 1000000) \div rq[2] IN
   /\ Meets(A, B, rq) = "GE" => Ratio6(A, B) + Ratio6Err >= t6
   /\ Meets(A, B, rq) = "LT" => Ratio6(A, B) - Ratio6Err <= t6
\* levels are nested: AAA implies the AA threshold is met as well, for both sizes
LevelsNested == \A large \in BOOLEAN :
   /\ Level(A, B, large) = "AAA" => Meets(A, B, AAReq(large)) = "GE"
   /\ Level(A, B, FALSE) = "AAA" => Level(A, B, TRUE) = "AAA"
   /\ Level(A, B, FALSE) = "AA" => Level(A, B, TRUE) \in {"AAA", "CLOSE"}
\* monotone in the lighter colour (greys only)
Monotone == ch = 0 /\ g1 < 255 /\ g2 >= 0 /\ g1 >= g2 => Ratio6(Col(g1 + 1, 0), B) > Ratio6(A, B)
\* the six-more-decimals comparison never contradicts the 1e-8 comparison where that one is conclusive with twice its band
FineConsistent == \A rq \in {<<3,1>>, <<9,2>>, <<7,1>>} :
   LET l == rq[2] * (LHi(A, B) + Flare)
       r == rq[1] * (LLo(A, B) + Flare)
       band == LumErr * (rq[1] + rq[2])
   IN /\ (l - r >= band /\ l - r <= 200) => CmpRatioFine(A, B, rq[1], rq[2]) = "GE"
      /\ (r - l > band /\ r - l <= 200) => CmpRatioFine(A, B, rq[1], rq[2]) = "LT"
ASSUME RequiredTable ==
   /\ Required(FALSE, FALSE) = <<9,2>> /\ Required(TRUE, FALSE) = <<3,1>>
   /\ Required(FALSE, TRUE) = <<7,1>> /\ Required(TRUE, TRUE) = <<9,2>>
====
