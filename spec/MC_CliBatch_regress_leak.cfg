SPECIFICATION Spec
CONSTANTS NF = 3
          SharedTable = FALSE
          LeakOnFault = TRUE
          KeepCmInputs = FALSE
INVARIANT Isolation
INVARIANT SkipBad
INVARIANT NoCmInput
INVARIANT RerunStable
CHECK_DEADLOCK FALSE
