SPECIFICATION Spec
CONSTANTS K = 4
          TrackPassing = TRUE
INVARIANT Contract
INVARIANT KeepsPassing
CHECK_DEADLOCK FALSE
