---- MODULE Bsl ----
EXTENDS Integers, TLC
CONSTANTS N,            \* lightness levels 0..N (abstract 8-bit colours on the text's line)
          K,            \* number of halvings (20 in the code)
          AwayDirection,   \* TRUE = ideal: move away from the background; FALSE = as-is: bg_l < 0.5
          TrackPassing     \* TRUE = ideal bookkeeping; FALSE = as-is (delta_e < best_delta_e only)
U == 2^K
Abs(x) == IF x < 0 THEN -x ELSE x
VARIABLES p, b, R, Tg, up, low, high, it, best, bestDe, bestCon, bestPass, done
vars == <<p,b,R,Tg,up,low,high,it,best,bestDe,bestCon,bestPass,done>>
None == -1
De(c)  == Abs(c - p)          \* monotone stand-in for CIEDE2000 from the text
Con(c) == Abs(c - b)          \* monotone stand-in for contrast against the background
Init == /\ p \in 0..N /\ b \in 0..N /\ R \in 0..N /\ Tg \in 1..N
        /\ up = IF AwayDirection /\ p # b THEN p > b ELSE b < (N \div 2)
        /\ low = IF up THEN p*U ELSE 0
        /\ high = IF up THEN N*U ELSE p*U
        /\ it = 0 /\ best = None /\ bestDe = 1000 /\ bestCon = 0 /\ bestPass = FALSE /\ done = FALSE
Step == /\ ~done /\ it < K
        /\ LET mid == (low + high) \div 2          \* exact: interval length is a multiple of 2^(K-it)
               c   == (2*mid + U) \div (2*U)        \* nearest level (8-bit rounding)
           IN IF De(c) > R
              THEN /\ (IF up THEN high' = mid /\ low' = low ELSE low' = mid /\ high' = high)
                   /\ UNCHANGED <<best,bestDe,bestCon,bestPass>>
              ELSE IF Con(c) >= Tg
                   THEN /\ (IF up THEN high' = mid /\ low' = low ELSE low' = mid /\ high' = high)
                        /\ IF (IF TrackPassing THEN (~bestPass \/ De(c) < bestDe) ELSE De(c) < bestDe)
                           THEN best' = c /\ bestDe' = De(c) /\ bestCon' = Con(c) /\ bestPass' = TRUE
                           ELSE UNCHANGED <<best,bestDe,bestCon,bestPass>>
                   ELSE /\ (IF up THEN low' = mid /\ high' = high ELSE high' = mid /\ low' = low)
                        /\ IF (IF TrackPassing THEN ~bestPass ELSE TRUE) /\ Con(c) > bestCon
                           THEN best' = c /\ bestDe' = De(c) /\ bestCon' = Con(c) /\ UNCHANGED bestPass
                           ELSE UNCHANGED <<best,bestDe,bestCon,bestPass>>
        /\ it' = it + 1 /\ UNCHANGED <<p,b,R,Tg,up,done>>
Finish == /\ ~done /\ it = K /\ done' = TRUE /\ UNCHANGED <<p,b,R,Tg,up,low,high,it,best,bestDe,bestCon,bestPass>>
Next == Step \/ Finish
Spec == Init /\ [][Next]_vars
\* C04: whatever the oracle, the result is nothing or within the tolerance
Contract == done => (best = None \/ De(best) <= R)
\* C03: a witness on the line within the tolerance that meets the target is found
Witness == p # b /\ \E w \in 0..N : De(w) <= R /\ Con(w) >= Tg /\ (p > b => w >= p) /\ (p < b => w <= p)
FindsWitness == done /\ Witness /\ Con(p) < Tg => (best # None /\ De(best) <= R /\ Con(best) >= Tg)
====
