---- MODULE TrStrat ----
(***************************************************************************)
(* Refinement-level trace validation (never a property verdict): is one    *)
(* observed make_readable run a behaviour of the model-checked strategy    *)
(* machine Strat.tla?                                                      *)
(*                                                                         *)
(* A trace is ONE run: the colours that occurred (index 0 = the text), the *)
(* background, the calls of the multi-phase search in order (input index,  *)
(* output index), reference dE between the pairs that matter (1e-4 units), *)
(* and the returned colour / flag.  Init binds Strat's oracle variables    *)
(* (con from Wcag.tla on the real colours, de from the reference values);  *)
(* each step is one of Strat's own actions, with the search's answer       *)
(* pinned to the observed output.  Accepted iff Strat reaches "done" having*)
(* consumed every observed call, with the observed result and flag.        *)
(* While this accepts, every observed run is a behaviour of a machine for  *)
(* which TLC established C01/C02/C04/C16 for ALL oracles.                  *)
(***************************************************************************)
EXTENDS Strat, Wcag, TraceKit

VARIABLES tid, k, finished
tvars == <<vars, tid, k, finished>>

T == Traces[tid]
NCols(t) == Len(t.cols)
ConLevel(t, c) ==    \* number of requirements (minimum, then target) the colour meets: Strat's contrast level
  IF c >= NCols(t) THEN 0
  ELSE LET req == Required(t.large, t.vr)
           tgt == Target(t.large, t.vr)
       IN (IF Meets(t.cols[c + 1], t.bg, req) = "GE" THEN 1 ELSE 0)
          + (IF ~t.vr /\ req # tgt /\ Meets(t.cols[c + 1], t.bg, tgt) = "GE" THEN 1 ELSE 0)
AnyClose(t) == \E c \in 0..(NCols(t) - 1) :
   Meets(t.cols[c + 1], t.bg, Required(t.large, t.vr)) = "CLOSE" \/ Meets(t.cols[c + 1], t.bg, Target(t.large, t.vr)) = "CLOSE"
DeOf(t, a, b) ==
  IF a = b THEN 0
  ELSE LET hits == {j \in 1..Len(t.de) : (t.de[j][1] = a /\ t.de[j][2] = b) \/ (t.de[j][1] = b /\ t.de[j][2] = a)}
       IN IF hits = {} THEN DeTop ELSE t.de[CHOOSE j \in hits : TRUE][3]

TInit ==
  /\ tid \in 1..NTraces
  /\ LET t == Traces[tid] IN
     /\ mode = t.mode
     /\ minL = 1 /\ targetL = (IF t.vr \/ Required(t.large, t.vr) = Target(t.large, t.vr) THEN 1 ELSE 2)
     /\ con = [c \in Colour |-> ConLevel(t, c)]
     /\ de = [a \in Colour |-> [b \in Colour |-> DeOf(t, a, b)]]
  /\ memo = [x \in {} |-> 0]
  /\ pc = "dispatch" /\ cur = 0 /\ iter = 0 /\ recRes = None /\ aRes = None /\ aOk = FALSE /\ gres = None
  /\ result = None /\ success = FALSE /\ r1 = None /\ s1 = FALSE
  /\ k = 1 /\ finished = FALSE

RetLabels == {"strict_ret", "rec_ret", "a_ret", "b_ret"}
StratStep == Dispatch \/ StrictRet \/ RecLoop \/ RecRet \/ ALoop \/ ARet \/ BStart \/ BRet
CalledWith == IF pc \in {"rec_loop", "a_loop"} THEN cur ELSE 0
\* one action of Strat; if it is a call of the search, its answer is the observed one
TStep ==
  /\ ~finished /\ pc # "done"
  /\ StratStep
  /\ IF pc' \in RetLabels
     THEN /\ k <= Len(T.chain) /\ T.chain[k][1] = CalledWith /\ gres' = T.chain[k][2] /\ k' = k + 1
     ELSE k' = k
  /\ UNCHANGED <<tid, finished>>

Accept ==
  /\ ~finished /\ pc = "done"
  /\ KitFinish(tid, {}, IF AnyClose(T) THEN {"I_ThresholdClose"}
                         ELSE IF k = Len(T.chain) + 1 /\ result = T.res /\ success = T.ok THEN {}
                         ELSE {"D_StratResult"})
  /\ finished' = TRUE /\ UNCHANGED <<vars, tid, k>>
Stuck ==
  /\ ~finished /\ pc # "done" /\ ~ENABLED TStep
  /\ KitFinish(tid, {}, IF AnyClose(T) THEN {"I_ThresholdClose"} ELSE {"D_StratStuck_" \o pc})
  /\ finished' = TRUE /\ UNCHANGED <<vars, tid, k>>
TNext == TStep \/ Accept \/ Stuck
TSpec == TInit /\ [][TNext]_tvars
====
