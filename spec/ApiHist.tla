---- MODULE ApiHist ----
(***************************************************************************)
(* Generator of API histories (spec -> code direction, C15 / C17 / C12).   *)
(* TLC enumerates every sequence of at most Depth abstract operations over *)
(* NP abstract pairs; the harness concretises each history (pair slots are *)
(* bound to concrete colour pairs chosen per run), executes it against the *)
(* real library, and TrApi.tla validates the recorded behaviour.           *)
(* An operation is a tuple:                                                *)
(*   <<"new", p>>               construct pair slot p in a NEW object      *)
(*   <<"readable", p>>          query the latest object of slot p          *)
(*   <<"fix", p, mode, vr, vis>> make_readable on the latest object of p;  *)
(*                              vis: 0 plain, 1 show, 2 save_report, 3 both*)
(*   <<"bulk", shape, mode, vr, save>> a bulk call over both slots; shape  *)
(*                              picks the order / arity mix                *)
(*   <<"cli", k>>               an in-process CLI run on a small sheet     *)
(*                              with the k-th option set (default-bg ...)  *)
(***************************************************************************)
EXTENDS Integers, Sequences
CONSTANTS Depth, NP, Vis, Modes, WithCli
Slots == 1..NP
FixOps == {<<"fix", p, m, v, s>> : p \in Slots, m \in Modes, v \in BOOLEAN, s \in Vis}
BulkOps == {<<"bulk", sh, m, v, sv>> : sh \in 1..3, m \in Modes, v \in BOOLEAN, sv \in {FALSE}}
Ops == FixOps \cup BulkOps \cup {<<"new", p>> : p \in Slots} \cup {<<"readable", p>> : p \in Slots}
       \cup (IF WithCli THEN {<<"cli", k>> : k \in 1..3} ELSE {})     \* k: which option set the command is run with
VARIABLE hist
Init == hist = <<>>
Next == Len(hist) < Depth /\ \E o \in Ops : hist' = Append(hist, o)
Spec == Init /\ [][Next]_hist
\* histories worth replaying end with a probe (a fix) - the harness filters on this
EndsWithProbe == Len(hist) > 0 /\ hist[Len(hist)][1] = "fix"
====
