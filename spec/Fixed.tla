---- MODULE Fixed ----
(***************************************************************************)
(* 32-bit-safe integer helpers shared by every layer of the specification. *)
(* TLC integers are Java ints: every intermediate product below stays      *)
(* under 2^31 for the argument ranges stated at each operator.             *)
(***************************************************************************)
EXTENDS Integers, Sequences

Abs(x) == IF x < 0 THEN -x ELSE x
Max(a, b) == IF a >= b THEN a ELSE b
Min(a, b) == IF a <= b THEN a ELSE b

\* floor(N / D * 10^k) by digit recursion; needs (D-1)*10 < 2^31, i.e. D < 2.1*10^8,
\* and the result < 2^31.
RECURSIVE LongDiv(_, _, _)
LongDiv(N, D, k) ==
  IF k = 0 THEN N \div D
  ELSE (N \div D) * (10 ^ k) + LongDiv((N % D) * 10, D, k - 1)

\* Nearest integers to n/d (d > 0, n >= 0): one value, or both neighbours on an
\* exact tie (CSS does not fix the tie; an implementation may round either way).
RoundHalfSet(n, d) ==
  LET q == n \div d
      r == n % d
  IN IF 2 * r < d THEN {q} ELSE IF 2 * r > d THEN {q + 1} ELSE {q, q + 1}

\* Sequence helpers
SeqSum3(s) == s[1] + s[2] + s[3]
IsByte(x) == x \in 0..255
IsRgb(c) == Len(c) = 3 /\ IsByte(c[1]) /\ IsByte(c[2]) /\ IsByte(c[3])
====
