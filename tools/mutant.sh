#!/bin/sh
# tools/mutant.sh <patch.diff> <demo.py|-> <ID> [tier]
# 1. confirms in a scratch worktree that the patch applies, the 125 tests pass with it,
#    and the demo fails with it / passes without it;
# 2. runs ./check <ID> against that scratch worktree (VERIF_REPO), so /repo itself is never touched and background runs
#    against /repo are not disturbed.  (To run a check against /repo with a patch applied by hand:
#    git -C /repo apply <patch>; ./check <ID>; git -C /repo checkout -- .)
PATCH="$1"; DEMO="$2"; ID="$3"; TIER="${4:-quick}"
WT=$(mktemp -d /tmp/mutwt.XXXXXX); rmdir "$WT"
git -C /repo worktree add -q --detach "$WT" HEAD || exit 2
cleanup() { git -C /repo worktree remove --force "$WT" 2>/dev/null; }
trap cleanup EXIT
if [ "$DEMO" != "-" ]; then
  ( cd "$WT" && PYTHONPATH="$WT/src" /venv/bin/python "$DEMO" >/dev/null 2>&1 ); echo "demo on clean tree: exit $?"
fi
git -C "$WT" apply "$PATCH" || { echo "PATCH DOES NOT APPLY"; exit 2; }
( cd "$WT" && PYTHONPATH="$WT/src" /venv/bin/python -m pytest -q -p no:cacheprovider 2>&1 | tail -1 )
if [ "$DEMO" != "-" ]; then
  ( cd "$WT" && PYTHONPATH="$WT/src" /venv/bin/python "$DEMO" >"$WT/.demo.out" 2>&1; echo "demo with patch: exit $?"; tail -2 "$WT/.demo.out" )
fi
( cd /verif && VERIF_REPO="$WT" VERIF_TIER="$TIER" ./check "$ID" >/tmp/mutcheck.$$ 2>&1; echo "check exit: $?"; grep -c "^VIOLATION" /tmp/mutcheck.$$; grep -E "^VIOLATION|KNOWN-FINDING|MACHINERY" /tmp/mutcheck.$$ | head -5; tail -1 /tmp/mutcheck.$$; rm -f /tmp/mutcheck.$$ )
