SPECIFICATION Spec
CONSTANTS MaxLen = 3
          Mode = "none"
INVARIANT Safe
CHECK_DEADLOCK FALSE
