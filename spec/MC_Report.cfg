SPECIFICATION Spec
CONSTANTS MaxLen = 3
          Mode = "full"
INVARIANT Safe
CHECK_DEADLOCK FALSE
