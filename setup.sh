#!/bin/sh
# Build/verify the framework from files on disk only (offline): the generated table module is
# reproduced bit for bit, every specification module parses, the reference oracles self-check.
set -e
cd "$(dirname "$0")"
python3 tools/gen_wcag_tables.py --check
for f in spec/*.tla; do
  m=$(basename "$f" .tla)
  ( cd spec && java -cp /opt/veriftools/tla/tla2tools.jar:/opt/veriftools/tla/CommunityModules-deps.jar tla2sany.SANY "$m.tla" >/tmp/sany.$$ 2>&1 ) || { cat /tmp/sany.$$; rm -f /tmp/sany.$$; echo "SANY failed on $m"; exit 1; }
  if grep -qiE "error|abort" /tmp/sany.$$; then cat /tmp/sany.$$; rm -f /tmp/sany.$$; echo "SANY reported errors on $m"; exit 1; fi
done
rm -f /tmp/sany.$$
/venv/bin/python -c "import sys; sys.path.insert(0,'harness'); import refs; refs.selftest(); print('reference oracles ok')"
mkdir -p evidence replays
# negative controls of the binding: genuine recordings are accepted, the same recordings with ONE field corrupted are rejected
# by TLC with the expected clause (TrPair, TrWcag, TrSearch, TrBatch, TrApi, TrCli)
PYTHONHASHSEED=0 CM_COLORS_VERIF=1 PYTHONPATH="${VERIF_REPO:-/repo}/src" /venv/bin/python harness/selftest_binding.py
# the razor-pair catalogue is input data: every listed pair really lies within 3e-7 of its threshold (exact tables)
/venv/bin/python tools/check_razor_pairs.py
echo "setup ok"
