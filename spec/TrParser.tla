---- MODULE TrParser ----
(***************************************************************************)
(* Refinement-level check of Parser.tla against the real parser: every     *)
(* sequence over the representative elements (enumerated by TLC from       *)
(* Parser.GenSpec) is concretised, parsed by the library, and the observed *)
(* outcome is compared with Parse(seq, background).  Mismatch = DRIFT.     *)
(***************************************************************************)
EXTENDS Parser, TraceKit
VARIABLES tid, i, fails, incon, nt
tvars == <<tid, i, fails, incon, nt, sq>>
TInit == tid \in 1..NTraces /\ i = 1 /\ fails = {} /\ incon = {} /\ nt = 0 /\ sq = <<>>
Ev == Traces[tid][i]
Lo(S) == CHOOSE x \in S : \A y \in S : x <= y
Hi(S) == CHOOSE x \in S : \A y \in S : x >= y
Floor1000(m) == IF m >= 0 THEN m \div 1000 ELSE -((-m + 999) \div 1000)
HslaOk(e, p) ==
  LET hm == p[2]
      hl == Floor1000(hm)
      hh == IF hm % 1000 = 0 THEN hl ELSE hl + 1
      vals(c) == UNION {HslToRgb(h, p[3], p[4])[c] : h \in {hl, hh}}
      an == p[5]
  IN \A c \in 1..3 :
       LET blo == Lo(vals(c)) * an + e.bg[c] * (1000 - an)
           bhi == Hi(vals(c)) * an + e.bg[c] * (1000 - an)
       IN 2 * e.obs[c] * 1000 >= 2 * Min(blo, bhi) - 3000 /\ 2 * e.obs[c] * 1000 <= 2 * Max(blo, bhi) + 3000
Judge(e) ==
  LET p == Parse(e.seq, e.bg) IN
  IF e.raised # "" THEN {"D_ParserRaised"}
  ELSE IF p[1] = "unmodelled" THEN {}
  ELSE IF p[1] = "invalid" THEN (IF e.obs = <<>> THEN {} ELSE {"D_ParserAcceptsWhatModelRejects"})
  ELSE IF e.obs = <<>> THEN {"D_ParserRejectsWhatModelAccepts"}
  ELSE IF p[1] = "valid" THEN (IF Admits(p[2], e.obs) THEN {} ELSE {"D_ParserValue"})
  ELSE (IF HslaOk(e, p) THEN {} ELSE {"D_ParserHslaValue"})
Observe == /\ i <= Len(Traces[tid]) /\ incon' = incon \cup Judge(Ev) /\ nt' = nt + 1 /\ i' = i + 1 /\ UNCHANGED <<tid, fails, sq>>
Finish == /\ i = Len(Traces[tid]) + 1 /\ KitFinish(tid, fails, incon) /\ KitCount("sequences", nt)
          /\ i' = i + 1 /\ UNCHANGED <<tid, fails, incon, nt, sq>>
TNext == Observe \/ Finish
TSpec == TInit /\ [][TNext]_tvars
====
