"""C05 - luminance, contrast ratio and readability labels are exactly WCAG 2.

Spec: Wcag.tla (definition, exact integer arithmetic over generated tables).
(a) MC_Wcag: self-consistency of the definition over 4 x 65,536 colour pairs.
(b)/(c) the implementation's observable functions are driven over lattices, grey x grey,
    threshold-bracketing and random pairs; every observation is one state of TrWcag and
    is judged by TLC against Wcag.tla.  Thorough: all 2^24 luminances (WcagLumAll).
"""
import os, sys, math, json, random, shutil
sys.path.insert(0, os.path.dirname(os.path.abspath(__file__)))
import vlib, refs

PID = "C05"
INF = float("inf")


def _get(modname, attr):
    import importlib
    try:
        m = importlib.import_module(modname)
    except Exception:
        return None
    return getattr(m, attr, None)


def fl(x, scale):
    v = x * scale
    if v != v or abs(v) > 2e9:
        return -1
    return int(math.floor(v))


def gen_colours(rnd, n):
    return [(rnd.randrange(256), rnd.randrange(256), rnd.randrange(256)) for _ in range(n)]


def near_threshold_pairs(rnd, n):
    """pairs whose ratio brackets 3, 4.5, 7 closely (text walked along a line until it crosses)."""
    out = []
    ths = (3.0, 4.5, 7.0)
    tries = 0
    while len(out) < n and tries < n * 50:
        tries += 1
        bg = gen_colours(rnd, 1)[0]
        t = rnd.choice(ths)
        base = gen_colours(rnd, 1)[0]
        # walk from base towards black or white
        end = (0, 0, 0) if refs.wcag_lum(bg) > 0.18 else (255, 255, 255)
        prev = None
        for k in range(0, 256):
            c = tuple(int(round(base[i] + (end[i] - base[i]) * k / 255.0)) for i in range(3))
            r = refs.wcag_ratio(c, bg)
            if prev is not None and (prev[1] < t) != (r < t):
                out.append((prev[0], bg))
                out.append((c, bg))
                break
            prev = (c, r)
    return out[:n]


def collect(t, rnd):
    cm = vlib.use_repo()
    f_lum = _get("cm_colors.core.contrast", "calculate_relative_luminance")
    f_ratio = _get("cm_colors.core.contrast", "calculate_contrast_ratio")
    f_level = _get("cm_colors.core.contrast", "get_contrast_level")
    f_wcag = _get("cm_colors.core.contrast", "get_wcag_level")
    from cm_colors import ColorPair, make_readable_bulk
    missing = [n for n, f in (("calculate_relative_luminance", f_lum), ("calculate_contrast_ratio", f_ratio),
                              ("get_contrast_level", f_level), ("get_wcag_level", f_wcag)) if f is None]
    obs = []
    # ---- luminance: lattice, greys, axes, random
    cols = []
    step = 17
    for r in range(0, 256, step):
        for g in range(0, 256, step):
            for b in range(0, 256, step):
                cols.append((r, g, b))
    cols += [(v, v, v) for v in range(256)]
    cols += [(v, 0, 0) for v in range(256)] + [(0, v, 0) for v in range(256)] + [(0, 0, v) for v in range(256)]
    cols += [(v, 255, 255) for v in range(256)]
    cols += gen_colours(rnd, 4000 if t == "quick" else 60000)
    if f_lum:
        for c in cols:
            obs.append({"k": "lum", "c": list(c), "l8": fl(f_lum(c), 1e8)})
    elif f_ratio:
        # recover luminance from the ratio against black: L = 0.05*ratio - 0.05
        for c in cols:
            obs.append({"k": "lum", "c": list(c), "l8": fl(0.05 * f_ratio(c, (0, 0, 0)) - 0.05 + 5e-10, 1e8)})
    # ---- ratio
    pairs = []
    gstep = 1 if t == "thorough" else 3
    for a in range(0, 256, gstep):
        for b in range(0, 256, gstep):
            pairs.append(((a, a, a), (b, b, b)))
    lat = [(r, g, b) for r in range(0, 256, 51) for g in range(0, 256, 51) for b in range(0, 256, 51)]
    for c in lat + gen_colours(rnd, 500):
        pairs.append((c, (0, 0, 0)))
        pairs.append((c, (255, 255, 255)))
        pairs.append((c, c))
    pairs += [((0, 0, 0), (255, 255, 255)), ((255, 255, 255), (0, 0, 0)), ((255, 255, 255), (0, 0, 1)),
              ((255, 255, 254), (0, 0, 0)), ((1, 0, 0), (0, 0, 0)), ((0, 0, 1), (0, 0, 0))]
    rp = gen_colours(rnd, 2 * (6000 if t == "quick" else 100000))
    pairs += list(zip(rp[0::2], rp[1::2]))
    nt = near_threshold_pairs(rnd, 1500 if t == "quick" else 20000)
    pairs += nt
    # different colours of (almost) the same luminance: neighbours in a luminance-sorted sample
    samp = sorted(gen_colours(rnd, 20000 if t == "quick" else 200000), key=refs.wcag_lum)
    iso = [(a, b) for a, b in zip(samp, samp[1:]) if a != b and abs(refs.wcag_lum(a) - refs.wcag_lum(b)) < 3e-6]
    pairs += iso[: (800 if t == "quick" else 12000)]
    # colours that collide under a sloppy integer packing ((r*255+g)*255+b and the like): a channel at 255 against 0 with the
    # neighbouring channel one apart - very different colours
    coll = []
    for _ in range(150 if t == "quick" else 3000):
        r_, x_ = rnd.randrange(255), rnd.randrange(256)
        coll += [((r_, 255, x_), (r_ + 1, 0, x_)), ((x_, r_, 255), (x_, r_ + 1, 0)), ((r_, 255, 255), (r_ + 1, 0, 0)),
                 ((r_, x_, 255), (r_, min(255, x_ + 1), 0))]
    pairs += coll
    if f_ratio:
        for a, b in pairs:
            obs.append({"k": "ratio", "a": list(a), "b": list(b), "ab6": fl(f_ratio(a, b), 1e6),
                        "ba6": fl(f_ratio(b, a), 1e6)})
        # the colours handed over in ONE list object per side that the caller updates in place between calls (a colour buffer):
        # the value passed decides, not the identity of the object it is passed in
        buf_a, buf_b = [0, 0, 0], [0, 0, 0]
        sub = pairs[:: max(1, len(pairs) // (1500 if t == "quick" else 20000))]
        for j, (a, b) in enumerate(sub):
            buf_b[:] = b
            if j % 2:
                buf_a[:] = a
                obs.append({"k": "ratio", "a": list(a), "b": list(b), "ab6": fl(f_ratio(buf_a, buf_b), 1e6), "ba6": fl(f_ratio(buf_b, buf_a), 1e6)})
            else:
                obs.append({"k": "ratio", "a": list(a), "b": list(b), "ab6": fl(f_ratio(a, buf_b), 1e6), "ba6": fl(f_ratio(buf_b, a), 1e6)})
            if f_lum and j % 5 == 0:
                obs.append({"k": "lum", "c": list(b), "l8": fl(f_lum(buf_b), 1e8)})
    # ---- level function around every threshold (abstract points enumerated like the spec's PointLevel)
    pts = []
    for (n, d) in ((3, 1), (9, 2), (7, 1)):
        for off in (-1, 0, 1):
            pts.append((n, d, off))
    pts += [(1, 1, 0), (21, 1, 0), (29, 10, 0), (31, 10, 0), (44, 10, 0), (46, 10, 0), (69, 10, 0), (71, 10, 0),
            (299999, 100000, 0), (449999, 100000, 0), (699999, 100000, 0), (1000000, 1, 0), (0, 1, 0)]
    if f_level:
        for n, d, off in pts:
            x = n / d
            if off < 0:
                x = math.nextafter(x, 0.0)
            elif off > 0:
                x = math.nextafter(x, INF)
            for large in (False, True):
                obs.append({"k": "level", "pt": [n, d, off], "large": large, "lvl": str(f_level(x, large) if off else f_level(x, large=large))})
    # ---- pair-level API on threshold-bracketing and random pairs
    pl = nt[: (600 if t == "quick" else 6000)] + list(zip(rp[0:400:2], rp[1:400:2])) + coll[: (200 if t == "quick" else 2000)]
    # pairs within 3e-7 of a threshold, both sides (catalogue found offline; which side is decided by TLC with the fine tables)
    import pairs as _pairs0
    rz = [tuple(map(tuple, pr)) for k_ in sorted(_pairs0.razor_all()) for pr in _pairs0.razor_all()[k_]]
    rnd.shuffle(rz)
    rz = rz[: (480 if t == "quick" else len(rz))]
    pl += rz + [(b_, a_) for a_, b_ in rz[:120]]
    # EVERY colour within 5e-5 of a threshold against pure white / pure black (tools/gen_end_pairs.py; about 1000 colours):
    # where a short cut for the commonest backgrounds with a rounded cut-off would differ
    with open(os.path.join(os.path.dirname(os.path.abspath(__file__)), "end_pairs.json")) as f_:
        ends_cat = json.load(f_)
    ep = [(tuple(c_), (255, 255, 255) if k_.startswith("white") else (0, 0, 0)) for k_ in sorted(ends_cat) for c_ in ends_cat[k_]]
    if t == "quick":
        ep = [pr for k_ in sorted(ends_cat) for pr in [(tuple(c_), (255, 255, 255) if k_.startswith("white") else (0, 0, 0)) for c_ in ends_cat[k_][:70]]]
    pl += ep + [(b_, a_) for a_, b_ in ep[::3]] + ep     # (twice: both size flags)
    # colours whose channels are all 0/1 or all 254/255 (integers that a "is this a 0..1 fraction?" heuristic could take for
    # something else) against black, white, themselves' neighbours and a mid grey, in both roles
    import itertools
    ends = [c_ for lo_ in ((0, 1), (254, 255)) for c_ in itertools.product(lo_, repeat=3)]
    partners = [(0, 0, 0), (255, 255, 255), (1, 1, 1), (2, 2, 2), (119, 119, 119), (0, 0, 1), (254, 254, 254)]
    zo = [(c_, q_) for c_ in ends for q_ in partners] + [(q_, c_) for c_ in ends for q_ in partners]
    pl += zo + zo          # twice: the size flag alternates with the index
    for idx, (a, b) in enumerate(pl):
        large = bool(idx & 1)
        # (the size flag positionally, by keyword, and - when it is False - not at all)
        lvl = (str(f_wcag(a, b, large)) if idx % 3 == 0 else str(f_wcag(a, b, large=large)) if idx % 3 == 1 or large else str(f_wcag(a, b))) if f_wcag else ""
        p = ColorPair(a, b, large)
        e = {"k": "pair", "a": list(a), "b": list(b), "large": large, "lvl": lvl, "readable": str(p.is_readable)}
        if not f_wcag:
            e["lvl"] = {"Very Readable": "AAA", "Readable": "AA", "Not Readable": "FAIL"}.get(e["readable"], "?")
        obs.append(e)
        if idx % 3 == 0:
            # the label of the SAME object after it has been used (a fix in some mode / setting): still the label of that pair
            try:
                p.make_readable(mode=(idx // 3) % 3, very_readable=bool((idx // 6) & 1))
                p.make_readable(mode=(idx // 3 + 1) % 3, very_readable=not bool((idx // 6) & 1))
            except Exception:
                pass
            obs.append(dict(e, readable=str(p.is_readable)))
    # ---- bulk status strings: label of the returned colour
    bl = [(a, b, bool(i & 1)) for i, (a, b) in enumerate(pl[: (300 if t == "quick" else 2500)])]
    bl += [(a, b, bool(i & 1)) for i, (a, b) in enumerate(zo[::3])]
    # extreme text colours (cannot move further from the background) on mid-tone backgrounds: the returned colour often
    # equals the input and its label lies between the requirement levels
    for g in range(60, 200, 4 if t == "quick" else 1):
        for a in ((0, 0, 0), (255, 255, 255)):
            bl.append((a, (g, g, g), bool(g & 4)))
    import pairs as _pairs
    # translucent backgrounds (rgba() text / 4-tuples; the effective background is the composite over white) with channel and
    # alpha values chosen so that the composite is an exact integer: channels multiples of 5, alpha in fifths
    tl = []
    for i in range(60 if t == "quick" else 900):
        k5 = rnd.choice([1, 2, 3, 4])
        c = tuple(5 * rnd.randrange(52) for _ in range(3)) if i % 3 else (255, 255, 255)
        eff = tuple((ch * k5 + 255 * (5 - k5)) // 5 for ch in c)
        assert all((ch * k5 + 255 * (5 - k5)) % 5 == 0 for ch in c)
        spec = ("rgba(%d, %d, %d, 0.%d)" % (c + (2 * k5,))) if i % 2 else (c[0], c[1], c[2], k5 / 5)
        txt = rnd.choice([(0, 0, 0), (255, 255, 255), gen_colours(rnd, 1)[0], gen_colours(rnd, 1)[0]])
        tl.append((txt, spec, eff, bool(i & 4)))
    for vr in (False, True):
        for mode in (0, 1, 2):
            sub = tl[mode::3] if t == "quick" else tl
            res = make_readable_bulk([(a, sp, lg) for a, sp, _e, lg in sub], mode=mode, very_readable=vr)
            for (a, sp, eff, lg), (col, status) in zip(sub, res):
                css, _lib = _pairs.readbacks(col)
                if css:
                    obs.append({"k": "bulk", "c": css, "b": list(eff), "large": lg, "status": str(status)})
    for vr in (False, True):
        for mode in (0, 1, 2):
            sub = bl[mode::3] if t == "quick" else bl
            res = make_readable_bulk([(a, b, lg) for a, b, lg in sub], mode=mode, very_readable=vr)
            res += make_readable_bulk([("#%02x%02x%02x" % a, b, lg) for a, b, lg in sub[-40:]], mode=mode, very_readable=vr)
            for (a, b, lg), (col, status) in zip(sub + sub[-40:], res):
                css, _lib = _pairs.readbacks(col)
                if css:
                    obs.append({"k": "bulk", "c": css, "b": list(b), "large": lg, "status": str(status)})
    return obs, missing


def lum_all(rep):
    """thorough: every one of the 16,777,216 colours, one TLC state per red level."""
    vlib.use_repo()
    tmp = vlib.scratch("verif_lum_")
    try:
        global _LUM_TMP
        _LUM_TMP = tmp
        vlib.pool_map(_lum_chunk, list(range(256)))
        cfg = "SPECIFICATION Spec\nINVARIANT AllLumOk\nINVARIANT AllVsBlackWhiteOk\nCHECK_DEADLOCK FALSE\n"
        r = vlib.run_tlc("WcagLumAll", cfg, env={"LUM_DIR": tmp}, workers=vlib.NCPU, heap="16g", timeout=3600)
        if "is violated" in r.stdout or "is violated" in r.error:
            # find the offending red level from the counterexample
            import re
            m = re.search(r"r = (\d+)", r.stdout)
            rep.violation("luminance / ratio against black or white differs from the WCAG definition", {"red_level": m.group(1) if m else "?",
                          "tlc": r.stdout[-1500:]})
            rep.states += r.distinct
            rep.transitions += r.generated
        else:
            rep.add_model("WcagLumAll(2^24 luminances observed)", r, "256 states x 65,536 observed luminances each")
            rep.evaluations += 3 * (1 << 24)
            rep.extra["all_luminances_exhaustive"] = True
            rep.extra["every_colour_against_black_and_white_exhaustive"] = True
    finally:
        shutil.rmtree(tmp, ignore_errors=True)


_LUM_TMP = None


def _lum_chunk(r):
    vlib.use_repo()
    from cm_colors.core.contrast import calculate_relative_luminance as L
    from cm_colors.core.contrast import calculate_contrast_ratio as R
    rows = [[fl(L((r, g, b)), 1e8) for b in range(256)] for g in range(256)]
    # every colour against black and against white (both argument orders alternate by parity)
    blk = [[fl(R((r, g, b), (0, 0, 0)) if (g + b) & 1 else R((0, 0, 0), (r, g, b)), 1e6) for b in range(256)] for g in range(256)]
    wht = [[fl(R((r, g, b), (255, 255, 255)) if (g + b) & 1 else R((255, 255, 255), (r, g, b)), 1e6) for b in range(256)] for g in range(256)]
    with open(os.path.join(_LUM_TMP, f"{r}.json"), "w") as f:
        json.dump({"lum": rows, "black": blk, "white": wht}, f, separators=(",", ":"))
    return r


def main():
    t = vlib.tier()
    rnd = random.Random(vlib.seed() * 7919 + 5)
    rep = vlib.Report(PID)
    rep.rule = ("observations of calculate_relative_luminance / calculate_contrast_ratio / get_contrast_level / "
                "get_wcag_level / ColorPair.is_readable / bulk status on lattices, grey x grey, every colour vs "
                "black and white, threshold-bracketing and random pairs; non-trivial = distinct observation input")
    rep.assumptions = ["TLC/SANY", "tools/gen_wcag_tables.py (exact integer table generator, pinned by ASSUMEs in Wcag.tla)",
                       "float->integer observation encoding floor(x*1e8) / floor(x*1e6) in the harness"]
    rep.add_model("MC_Wcag", vlib.check_model("MC_Wcag", "MC_Wcag.cfg"),
                  "definition self-consistency: symmetry, range, diagonal, 21 only black/white, Cmp vs Ratio6, nesting, monotone")
    obs, missing = collect(t, rnd)
    if missing:
        rep.extra["skipped_missing_functions"] = missing
    B = 64
    traces = [obs[i:i + B] for i in range(0, len(obs), B)]
    agg = vlib.validate_traces("TrWcag", traces)
    rep.add_traces(agg, len(traces))
    rep.evaluations += len(obs)
    rep.nontrivial = len({json.dumps(o, sort_keys=True) for o in obs})
    for k in ("lum", "ratio", "level", "pair", "bulk"):
        s = next((o for o in obs if o["k"] == k), None)
        if s:
            rep.sample(s)
    rep.extra["observations_by_kind"] = {k: sum(1 for o in obs if o["k"] == k) for k in ("lum", "ratio", "level", "pair", "bulk")}
    rep.inconclusive += sum(1 for b in agg["bad"] if b["incon"])
    hits, more = vlib.pinpoint("TrWcag", traces, agg)
    for tid, j, fl in hits:
        rep.violation("/".join(fl), {"observation": traces[tid][j], "clauses": fl,
                      "reproduce": "see harness/c05.py: the observation names the function inputs"})
    if more:
        print(f"NOTE: {more} further failing batches not itemised")
    if t == "thorough":
        lum_all(rep)
    return rep.finish()


if __name__ == "__main__":
    vlib.main_wrapper(main)
