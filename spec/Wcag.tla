---- MODULE Wcag ----
(***************************************************************************)
(* WCAG 2 relative luminance, contrast ratio, levels and labels, in exact  *)
(* integer arithmetic over the generated tables (units of 10^-8).          *)
(* This module is the DEFINITION the implementation is held to (C05) and   *)
(* the oracle of every property that mentions a contrast requirement.      *)
(***************************************************************************)
EXTENDS Integers, Sequences, Fixed, WcagTables

Unit == 100000000          \* luminance 1.0
Flare == 5000000           \* the +0.05 of the ratio

ASSUME TablesSane ==
  /\ Len(LumR) = 256 /\ Len(LumG) = 256 /\ Len(LumB) = 256
  /\ LumR[1] = 0 /\ LumG[1] = 0 /\ LumB[1] = 0
  /\ LumR[256] = 21260000 /\ LumG[256] = 71520000 /\ LumB[256] = 7220000
  /\ \A v \in 1..255 : LumR[v] < LumR[v+1] /\ LumG[v] < LumG[v+1] /\ LumB[v] < LumB[v+1]
  \* the linear segment: v <= 10 gives weight * v / 3294.6
  /\ \A v \in 0..10 : Abs(LumB[v+1] - (722 * v * 100000) \div 32946) <= 1
  /\ Len(ResR) = 256 /\ Len(ResG) = 256 /\ Len(ResB) = 256
  /\ \A v \in 1..256 : Abs(ResR[v]) <= 500001 /\ Abs(ResG[v]) <= 500001 /\ Abs(ResB[v]) <= 500001
  /\ ResR[1] = 0 /\ ResR[256] = 0 /\ ResG[256] = 0 /\ ResB[256] = 0

\* relative luminance, error <= 1.5 units (three rounded table entries)
Lum(c) == LumR[c[1] + 1] + LumG[c[2] + 1] + LumB[c[3] + 1]
LumErr == 2

LHi(a, b) == Max(Lum(a), Lum(b))
LLo(a, b) == Min(Lum(a), Lum(b))

\* Is contrast(a,b) >= n/d ?   n/d \in {3/1, 9/2, 7/1}: all products < 10^9.
\* "CLOSE" when the two sides differ by less than the table uncertainty.
\* When the 1e-8 tables cannot separate the two sides, the comparison is repeated with six more decimals
\* (units of 10^-14; ResX tables): d*(LHi+F) - n*(LLo+F) = H * 10^6 + L with H the 1e-8 part (|H| <= band there,
\* so H * 10^6 stays far inside 32 bits) and L the residual part (|L| <= 9 * 1.5e6).  What is still "CLOSE" then
\* lies within about 4e-12 of the threshold ratio.
Res(c) == ResR[c[1] + 1] + ResG[c[2] + 1] + ResB[c[3] + 1]
ResErr == 2
CmpRatioFine(a, b, n, d) ==
  LET hiC == IF Lum(a) >= Lum(b) THEN a ELSE b
      loC == IF Lum(a) >= Lum(b) THEN b ELSE a
      H == d * (Lum(hiC) + Flare) - n * (Lum(loC) + Flare)
      L == d * Res(hiC) - n * Res(loC)
      T == H * 1000000 + L
      band == ResErr * (n + d)
  IN IF T >= band THEN "GE" ELSE IF -T > band THEN "LT" ELSE "CLOSE"
CmpRatio(a, b, n, d) ==
  LET l == d * (LHi(a, b) + Flare)
      r == n * (LLo(a, b) + Flare)
      band == LumErr * (n + d)
  IN IF l - r >= band THEN "GE" ELSE IF r - l > band THEN "LT" ELSE CmpRatioFine(a, b, n, d)

\* contrast ratio in millionths, floor; error < 15 millionths
Ratio6(a, b) == LongDiv(LHi(a, b) + Flare, LLo(a, b) + Flare, 6)
Ratio6Err == 20

\* the 4-entry requirement table of make_readable (C01): <<num, den>>
Required(large, vr) ==
  IF vr THEN (IF large THEN <<9, 2>> ELSE <<7, 1>>)
        ELSE (IF large THEN <<3, 1>> ELSE <<9, 2>>)
\* the contrast the search aims at
Target(large, vr) == IF large THEN <<9, 2>> ELSE <<7, 1>>

Meets(a, b, req) == CmpRatio(a, b, req[1], req[2])

\* WCAG level of a pair; "CLOSE" if a threshold comparison is inconclusive
AAAReq(large) == IF large THEN <<9, 2>> ELSE <<7, 1>>
AAReq(large)  == IF large THEN <<3, 1>> ELSE <<9, 2>>
Level(a, b, large) ==
  LET hi == Meets(a, b, AAAReq(large))
      lo == Meets(a, b, AAReq(large))
  IN IF hi = "GE" THEN "AAA"
     ELSE IF hi = "CLOSE" THEN "CLOSE"
     ELSE IF lo = "GE" THEN "AA"
     ELSE IF lo = "CLOSE" THEN "CLOSE"
     ELSE "FAIL"

Label(level) == CASE level = "AAA" -> "Very Readable"
                  [] level = "AA" -> "Readable"
                  [] level = "FAIL" -> "Not Readable"
                  [] OTHER -> "CLOSE"
LowerLabel(level) == CASE level = "AAA" -> "very readable"
                       [] level = "AA" -> "readable"
                       [] level = "FAIL" -> "not readable"
                       [] OTHER -> "CLOSE"

\* Level of an abstract ratio point <<num, den, off>> = num/den + off*eps (eps -> 0+),
\* used to enumerate the label function around every threshold.
PointGE(pt, req) ==
  LET l == pt[1] * req[2]
      r == req[1] * pt[2]
  IN IF l > r THEN TRUE ELSE IF l < r THEN FALSE ELSE pt[3] >= 0
PointLevel(pt, large) ==
  IF PointGE(pt, AAAReq(large)) THEN "AAA"
  ELSE IF PointGE(pt, AAReq(large)) THEN "AA" ELSE "FAIL"

\* Is contrast(x, bg) >= contrast(y, bg) ?  ("GE" / "LT" / "CLOSE")
\* Same side of the background: compare luminances directly; otherwise Ratio6.
NotLower(x, y, bg) ==
  IF x = y THEN "GE"
  ELSE LET lx == Lum(x)  ly == Lum(y)  lb == Lum(bg)
       IN IF lx >= lb + 4 /\ ly >= lb + 4
          THEN (IF lx >= ly + 4 THEN "GE" ELSE IF ly >= lx + 4 THEN "LT" ELSE "CLOSE")
          ELSE IF lx + 4 <= lb /\ ly + 4 <= lb
          THEN (IF lx + 4 <= ly THEN "GE" ELSE IF ly + 4 <= lx THEN "LT" ELSE "CLOSE")
          ELSE LET rx == Ratio6(x, bg)  ry == Ratio6(y, bg)
               IN IF rx >= ry + 2 * Ratio6Err THEN "GE"
                  ELSE IF ry >= rx + 2 * Ratio6Err THEN "LT" ELSE "CLOSE"
====
