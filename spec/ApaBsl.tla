---- MODULE ApaBsl ----
(***************************************************************************)
(* Apalache wrapper of Bsl.tla with the REAL constants of the code (the    *)
(* 8-bit lightness line N = 255, K = 20 halvings): 2^32 initial states,    *)
(* out of TLC's reach, but the contract "nothing or within the tolerance"  *)
(* (C04) has a one-step inductive invariant that Apalache discharges       *)
(* symbolically:                                                           *)
(*   apalache-mc check --init=IndInit --inv=IndInv --length=1 ApaBsl.tla   *)
(*   apalache-mc check --init=Init --inv=IndInv --length=0 ApaBsl.tla      *)
(* (tools/apalache_bsl.sh; thorough tier of C04).                          *)
(***************************************************************************)
EXTENDS Integers
N == 255
K == 20
AwayDirection == TRUE
TrackPassing == TRUE
VARIABLES
  \* @type: Int;
  p,
  \* @type: Int;
  b,
  \* @type: Int;
  R,
  \* @type: Int;
  Tg,
  \* @type: Bool;
  up,
  \* @type: Int;
  low,
  \* @type: Int;
  high,
  \* @type: Int;
  it,
  \* @type: Int;
  best,
  \* @type: Int;
  bestDe,
  \* @type: Int;
  bestCon,
  \* @type: Bool;
  bestPass,
  \* @type: Bool;
  done
INSTANCE Bsl
\* every variable constrained; the substance is the last two conjuncts
IndInv ==
  /\ p \in 0..N /\ b \in 0..N /\ R \in 0..N /\ Tg \in 1..N
  /\ up \in BOOLEAN /\ bestPass \in BOOLEAN /\ done \in BOOLEAN
  /\ it \in 0..K
  /\ low \in 0..(N * U) /\ high \in 0..(N * U) /\ low <= high
  /\ bestDe \in 0..1000 /\ bestCon \in 0..N
  /\ best \in -1..N
  /\ (best # None => De(best) <= R /\ bestDe = De(best))
  /\ (done => it = K)
IndInit == IndInv
====
