SPECIFICATION GenSpec
CONSTANTS NF = 3
          SharedTable = FALSE
          LeakOnFault = FALSE
          KeepCmInputs = FALSE
CHECK_DEADLOCK FALSE
