"""C08 - see DESIGN.md section 5; shared CLI driver in clichecks.py, trace spec TrCli.tla, design model Cli.tla."""
import os, sys
sys.path.insert(0, os.path.dirname(os.path.abspath(__file__)))
import vlib, clichecks

if __name__ == "__main__":
    vlib.main_wrapper(lambda: clichecks.run("C08"))
