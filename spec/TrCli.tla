---- MODULE TrCli ----
(***************************************************************************)
(* Trace specification of one run of the cm-colors command on one          *)
(* stylesheet (C08, C09).  A behaviour is                                  *)
(*     Run(settings, summary, files, token structure) -> Rule(r)*          *)
(* where each Rule event carries what the tool said about that rule (card, *)
(* listed as needing attention, or neither = counted readable), what the   *)
(* written file contains for it, and what the Python API of the same tree  *)
(* returns for the same pair and settings.  Contrast verdicts come from    *)
(* Wcag.tla.  Clauses are judged modulo the input classes of the recorded  *)
(* findings (e.known), which are predicates of the INPUT stylesheet.       *)
(***************************************************************************)
EXTENDS Wcag, TraceKit, FiniteSets

VARIABLES tid, i, run, nRest, nCard, nFailed, fails, incon, known
vars == <<tid, i, run, nRest, nCard, nFailed, fails, incon, known>>

NoRun == [started |-> FALSE]
Init == /\ tid \in 1..NTraces /\ i = 1 /\ run = NoRun /\ nRest = 0 /\ nCard = 0 /\ nFailed = 0
        /\ fails = {} /\ incon = {} /\ known = {}
Ev == Traces[tid][i]
When(c, name) == IF c THEN {} ELSE {name}
ToSet(s) == {s[j] : j \in 1..Len(s)}
TargetOf(premium) == IF premium THEN <<7, 1>> ELSE <<9, 2>>

\* ---- C09: same token structure except the values of adjusted colour declarations / custom properties
ItemAllowedDiff(x, y, adjRules, adjVars) ==
  /\ x.k = "decl" /\ y.k = "decl" /\ x.a = y.a /\ x.imp = y.imp /\ x.rule = y.rule /\ x.name = y.name
  /\ \/ (x.name = "color" /\ x.last /\ x.rule \in adjRules)
     \/ (x.name # "" /\ x.name # "color" /\ x.name \in adjVars)
SameExceptAdjusted(fin, fout, adjRules, adjVars) ==
  /\ Len(fin) = Len(fout)
  /\ \A k \in 1..Len(fin) : k <= Len(fout) => (fin[k] = fout[k] \/ ItemAllowedDiff(fin[k], fout[k], adjRules, adjVars))
FirstDiff(fin, fout, adjRules, adjVars) ==
  IF Len(fin) # Len(fout) THEN "C09_StructureLength"
  ELSE "C09_SameExceptAdjusted"

TRun ==
  /\ Ev.e = "run" /\ ~run.started
  /\ LET e == Ev IN
     /\ run' = [started |-> TRUE, premium |-> e.premium, mode |-> e.mode, counts |-> e.counts, nColoured |-> e.nColoured,
                ncards |-> e.ncards, nlisted |-> e.nlisted]
     /\ fails' = fails
          \cup When(e.exit = 0 /\ e.exception = "", "C08_RunFailed")
          \* C09
          \cup When(e.inputsUnchanged, "C09_InputsUntouched")
          \cup When(e.bomSame, "C09_ByteOrderMark")          \* as many byte-order marks at the start of the output as of the input
          \* every comment of the input is in the output and none is new - counted on the raw token stream.  Comments lost from
          \* between a property name and its colon / inside "!important" of a rule the tool re-serialises are finding F12
          \* (e.commentsLostKnown, announced below); any other lost comment, and any added one, is a violation
          \cup When(e.skipped \/ ~e.outputExists \/ (e.commentsLostOther = 0 /\ e.commentsGained = 0), "C09_CommentsKept")
          \cup When(ToSet(e.newFiles) \subseteq ToSet(e.allowedNew), "C09_OnlyDocumentedFiles")
          \cup When(e.skipped \/ e.outputExists, "C09_OutputWritten")
          \cup When(e.skipped \/ ~e.outputExists \/ e.outParses, "C09_OutputIsValidCss")
          \cup (IF e.skipped \/ ~e.outputExists \/ SameExceptAdjusted(e.flatIn, e.flatOut, ToSet(e.adjRules), ToSet(e.adjVars))
                THEN {} ELSE {FirstDiff(e.flatIn, e.flatOut, ToSet(e.adjRules), ToSet(e.adjVars))})
          \* C08, summary level
          \cup When(e.skipped \/ e.counts.tuned = e.ncards, "C08_AdjustedCountIsCards")
          \cup When(e.skipped \/ e.counts.failed = e.nlisted, "C08_AttentionCountIsListed")
          \cup When(e.skipped \/ e.counts.accessible + e.counts.tuned + e.counts.failed = e.nColoured, "C08_EveryRuleCountedOnce")
     /\ incon' = incon \cup (IF ~e.skipped /\ e.outputExists /\ e.commentsLostKnown > 0 THEN {"K_F12"} ELSE {})
  /\ i' = i + 1 /\ UNCHANGED <<tid, nRest, nCard, nFailed, known>>

TRule ==
  /\ Ev.e = "rule" /\ run.started
  /\ LET e == Ev
         tgt == TargetOf(run.premium)
         isKnown == e.known # ""
         cardFails ==
            \* (apiAlt: the API's answers for the pair as the tool met it when an EARLIER adjusted rule had re-tuned, in place, the
            \*  custom property this rule references - also when the property did not resolve at all before that)
            When((e.validPair /\ e.api.ok /\ e.cardAfter = e.api.css) \/ \E j \in 1..Len(e.apiAlt) : e.cardAfter = e.apiAlt[j],
                 "C08_CardIsApiResult")
            \cup (IF e.cardAfter # <<>> /\ e.bg # <<>> /\ Meets(e.cardAfter, e.bg, tgt) = "LT" THEN {"C08_CardMeetsTarget"} ELSE {})
            \cup When(e.cardAfter # <<>>, "C08_CardColourUnreadable")
            \cup When(e.written = e.cardAfter, "C08_ReportedIsWritten")
            \* C04 through the command: with --mode 0 an adjusted colour is within dE 5.0 of the colour it replaces
            \cup (IF run.mode = 0 /\ e.cardDe4 > 50010 THEN {"C04_CliStrictCap"} ELSE {})
         failedFails ==
            When(e.unchanged, "C08_AttentionRuleLeftUnchanged")
         restFails ==
            \* judged on the rule as it stands in the written file (a rule counted readable is left as it is)
            When(e.outText # <<>>, "C08_CountedReadableButInvalid")
            \cup (IF e.outText # <<>> /\ Meets(e.outText, e.outBg, tgt) = "LT" THEN {"C08_CountedReadableButFails"} ELSE {})
            \cup When(e.unchanged, "C09_UnadjustedRuleChanged")
         f == CASE e.cat = "card" -> cardFails
                [] e.cat = "failed" -> failedFails
                [] e.cat = "rest" -> restFails
                [] OTHER -> {"C08_RuleInTwoCategories"}
         \* what a recorded finding excuses: F6 (a custom property this rule depends on is re-tuned for a LATER rule) has no
         \* single ideal behaviour, so the rule's clauses are excused; nothing else is
         excused == IF e.known = "F6" THEN f ELSE {}
     IN /\ fails' = fails \cup (f \ excused)
        /\ known' = known \cup (IF f \cap excused # {} THEN {e.known} ELSE {})
        /\ incon' = incon \cup (IF e.cat = "card" /\ e.cardAfter # <<>> /\ e.bg # <<>> /\ Meets(e.cardAfter, e.bg, tgt) = "CLOSE" THEN {"C08_CardMeetsTarget"} ELSE {})
                          \* what the card shows as background is presentation, not part of the property: drift only
                          \cup (IF e.cat = "card" /\ ~e.cardBgOk THEN {"D_CardBackground"} ELSE {})
                          \* the two badges of a card are the WCAG levels (normal text) of the colour before and after: drift only
                          \cup (IF e.cat = "card" /\ e.known = "" /\ e.apiAlt = <<>> /\ e.cardAfter # <<>> /\ e.bg # <<>> /\ e.text # <<>>
                                    /\ Level(e.cardAfter, e.bg, FALSE) # "CLOSE" /\ Level(e.text, e.bg, FALSE) # "CLOSE"
                                    /\ (e.cardLevels[2] # Level(e.cardAfter, e.bg, FALSE) \/ e.cardLevels[1] # Level(e.text, e.bg, FALSE))
                                 THEN {"D_CardLevels"} ELSE {})
                          \cup (IF e.cat = "rest" /\ e.outText # <<>> /\ Meets(e.outText, e.outBg, tgt) = "CLOSE" THEN {"C08_CountedReadableButFails"} ELSE {})
        /\ nRest' = nRest + (IF e.cat = "rest" THEN 1 ELSE 0)
        /\ nCard' = nCard + (IF e.cat = "card" THEN 1 ELSE 0)
        /\ nFailed' = nFailed + (IF e.cat = "failed" THEN 1 ELSE 0)
  /\ i' = i + 1 /\ UNCHANGED <<tid, run>>

Step == i <= Len(Traces[tid]) /\ (TRun \/ TRule)
Finish ==
  /\ i = Len(Traces[tid]) + 1
  /\ LET f2 == IF run.started /\ known = {}
               THEN When(nRest = run.counts.accessible, "C08_ReadableCountMatchesRules")
                    \cup When(nCard = run.ncards, "C08_CardForUnknownRule")
               ELSE {}
     IN KitFinish(tid, fails \cup f2, incon \cup {"K_" \o k : k \in known})
  /\ KitCount("rules", nRest + nCard + nFailed) /\ KitCount("cards", nCard) /\ KitCount("attention", nFailed) /\ KitCount("readable", nRest)
  /\ i' = i + 1 /\ UNCHANGED <<tid, run, nRest, nCard, nFailed, fails, incon, known>>
Next == Step \/ Finish
Spec == Init /\ [][Next]_vars
====
