---- MODULE TraceKit ----
(***************************************************************************)
(* Batch trace validation kit.  A trace file holds a sequence of recorded  *)
(* behaviours of the implementation; the trace specification picks one     *)
(* (tid, in Init), consumes one recorded event per state re-using the      *)
(* actions / predicates of the module it extends, and finishes with        *)
(* KitFinish, which reports the clauses that were false ("fails") or       *)
(* numerically undecidable ("incon") through TLC registers.  KitPost       *)
(* (POSTCONDITION) writes the verdicts as JSON.  Needs -workers 1.         *)
(***************************************************************************)
EXTENDS Integers, Sequences, TLC, TLCExt, Json, IOUtils

Traces == JsonDeserialize(IOEnv.TRACE_FILE)
NTraces == Len(Traces)

ASSUME KitRegisters == TLCSet(1, 0) /\ TLCSet(2, <<>>) /\ TLCSet(3, <<>>)

\* add a per-clause counter (how often a clause was evaluated non-vacuously)
KitCount(name, k) ==
  IF k = 0 THEN TRUE
  ELSE LET cur == TLCGet(3)
           has == \E j \in 1..Len(cur) : cur[j][1] = name
       IN IF has
          THEN TLCSet(3, [j \in 1..Len(cur) |-> IF cur[j][1] = name THEN <<name, cur[j][2] + k>> ELSE cur[j]])
          ELSE TLCSet(3, Append(cur, <<name, k>>))

KitFinish(tid, fails, incon) ==
  /\ TLCSet(1, TLCGet(1) + 1)
  /\ IF fails = {} /\ incon = {} THEN TRUE
     ELSE TLCSet(2, Append(TLCGet(2), <<tid, fails, incon>>))

KitPost ==
  LET c == TLCGet(3)
  IN JsonSerialize(IOEnv.OUT_FILE,
       [done |-> TLCGet(1), bad |-> TLCGet(2),
        cnt |-> [n \in {c[j][1] : j \in 1..Len(c)} |->
                   c[CHOOSE j \in 1..Len(c) : c[j][1] = n][2] ]])
====
