---- MODULE PairProps ----
(***************************************************************************)
(* The property predicates of the fixing API (C01, C02, C03, C04, C16) over *)
(* abstract verdicts.  The design-level models (Strat.tla, Opt2.tla) and    *)
(* the trace specification (TrPair.tla) both state their invariants with    *)
(* these operators: one source of truth for what each property means.       *)
(***************************************************************************)
EXTENDS Integers

\* C01: the success flag is exactly "the returned colour meets the minimum"
FlagExactP(success, resultMeetsMin) == success <=> resultMeetsMin

\* C02: a pair that already meets the minimum is returned unchanged with success
AlreadyOkP(textMeetsMin, resultIsText, success) == textMeetsMin => (resultIsText /\ success)
\* C02: otherwise contrast never drops
NoHarmP(resultNotLower) == resultNotLower

\* C03: a barely perceptible witness implies success and a small change
FindsWitnessP(witness, success, resultWithinSmall) == witness => (success /\ resultWithinSmall)

\* C04: strict mode stays within the strict cap
StrictCapP(mode, resultWithinStrictCap) == mode = 0 => resultWithinStrictCap
\* C04: one multi-phase search step returns its input or a colour within its largest tolerance
StepBoundedP(outIsIn, outWithinCap) == outIsIn \/ outWithinCap

\* C16: mode 2 covers mode 1
Mode2CoversMode1P(success1, sameResult, success2) == success1 => (sameResult /\ success2)
\* C16: the ordinary request succeeds whenever the very-readable one does
OrdinaryCoversPremiumP(successVr, successOrdinary) == successVr => successOrdinary
====
