\* regression: a rule holding an unparsable declaration (star hack) before commit b8275e3 'fix: keep declarations tinycss2 cannot parse ... as their tokens'
\* TLC must report OutputWritten (and ReportedIsWrittenModuloF6) violated
SPECIFICATION Spec
CONSTANTS RootPostOverwrites = FALSE
          FallbackWritten = TRUE
          CarryInvalid = FALSE
          HackPositions = {1, 2}
          NR = 2
INVARIANT Partition
INVARIANT CardMeetsTarget
INVARIANT FailedUnchanged
INVARIANT ReportedIsWrittenModuloKnown
INVARIANT ReportedIsWrittenModuloF6
INVARIANT OutputWritten
CHECK_DEADLOCK FALSE
