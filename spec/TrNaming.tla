---- MODULE TrNaming ----
(***************************************************************************)
(* Names enumerated by TLC from Naming.tla, replayed into the command: one *)
(* event per name with the output file the command created for it and what *)
(* repeated directory runs did afterwards.                                 *)
(***************************************************************************)
EXTENDS Naming, TraceKit
VARIABLES tid, i, fails, incon, nt
tvars == <<tid, i, fails, incon, nt, name>>
TInit == tid \in 1..NTraces /\ i = 1 /\ fails = {} /\ incon = {} /\ nt = 0 /\ name = <<>>
Ev == Traces[tid][i]
Observe ==
  /\ i <= Len(Traces[tid])
  /\ LET e == Ev IN
     /\ fails' = fails
          \cup (IF e.inputSame THEN {} ELSE {"C09_InputsUntouched"})
          \cup (IF e.out # <<>> THEN {} ELSE {"C18_ValidFileProcessed"})
          \cup (IF e.out # e.name THEN {} ELSE {"C09_InputsUntouched"})
          \cup (IF e.rerunNew = <<>> THEN {} ELSE {"C18_NoCmInput"})            \* repeated directory runs create nothing further
     /\ incon' = incon \cup (IF e.out = <<>> \/ e.out = OutName(e.name) THEN {} ELSE {"D_NamingModel"})
  /\ nt' = nt + 1 /\ i' = i + 1 /\ UNCHANGED <<tid, name>>
Finish == /\ i = Len(Traces[tid]) + 1 /\ KitFinish(tid, fails, incon) /\ KitCount("names", nt)
          /\ i' = i + 1 /\ UNCHANGED <<tid, fails, incon, nt, name>>
TNext == Observe \/ Finish
TSpec == TInit /\ [][TNext]_tvars
====
