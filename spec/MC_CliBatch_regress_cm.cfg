SPECIFICATION Spec
CONSTANTS NF = 3
          SharedTable = FALSE
          LeakOnFault = FALSE
          KeepCmInputs = TRUE
INVARIANT Isolation
INVARIANT SkipBad
INVARIANT NoCmInput
INVARIANT RerunStable
CHECK_DEADLOCK FALSE
