---- MODULE TrPair ----
(***************************************************************************)
(* Trace specification of the fixing API.  A behaviour is                  *)
(*    Construct(text, bg, large) -> Fix(mode, very_readable)*              *)
(* recorded through ColorPair; one recorded event per state.  State = the  *)
(* pair as the library parsed it + the results seen so far (needed by the  *)
(* two-run properties of C16).  The clauses are PairProps predicates with  *)
(* contrast verdicts from Wcag.tla; dE values are reference CIEDE2000 in   *)
(* 1e-4 units supplied by the harness (assumption of C03/C04).             *)
(***************************************************************************)
EXTENDS Wcag, CssColor, PairProps, TraceKit, FiniteSets

VARIABLES tid, i, pair, seen, fails, incon, nt
vars == <<tid, i, pair, seen, fails, incon, nt>>

NoPair == [valid |-> FALSE]
DeGuard == 10            \* 1e-3 guard band around every dE bound
StrictCap4 == 50000
SmallFix4 == 20000
WitnessMax4 == 15000

Init == /\ tid \in 1..NTraces /\ i = 1 /\ pair = NoPair /\ seen = {}
        /\ fails = {} /\ incon = {} /\ nt = [c01 |-> 0, c02ok |-> 0, c02harm |-> 0, c03 |-> 0, c04strict |-> 0, c04chain |-> 0, c16a |-> 0, c16b |-> 0]
Ev == Traces[tid][i]

\* ---- C13: what the pair must look like when the text (or background) was given in a translucent spelling.
\* e.comp describes the abstract input: foreground (rgb ints or H/S/L tenths), alpha an/ad, and the background as
\* given (opaque 8-bit value, or itself translucent with alpha ban/bad - then it goes over white).
White == <<255, 255, 255>>
CompFails(e) ==
  LET c == e.comp IN
  IF c.kind = "none" THEN {}
  ELSE (IF c.ban = c.bad THEN (IF e.bg = c.bgv THEN {} ELSE {"C13_Background"})
        ELSE (IF WithinBlend(e.bg, c.bgv, c.ban, c.bad, White) THEN {} ELSE {"C13_BackgroundOverWhite"}))
       \cup (IF c.kind = "rgb"
             THEN (IF WithinBlend(e.text, c.v, c.an, c.ad, e.bg) THEN {} ELSE {"C13_CompositeOverOwnBackground"})
                  \cup (IF c.an = c.ad /\ e.text # c.v THEN {"C13_AlphaOne"} ELSE {})
             ELSE (IF WithinBlendMilli(e.text, HslMilli(c.h, c.s, c.l), c.an, c.ad, e.bg) THEN {} ELSE {"C13_CompositeOverOwnBackground"})
                  \cup (IF c.an = c.ad /\ ~Admits(HslToRgb(c.h, c.s, c.l), e.text) THEN {"C13_AlphaOne"} ELSE {}))
       \cup (IF c.an = 0 /\ e.text # e.bg THEN {"C13_AlphaZero"} ELSE {})
ReadableFails(e) ==
  LET lv == Level(e.text, e.bg, e.large) IN
  IF e.readable = "" \/ lv = "CLOSE" THEN {} ELSE IF e.readable = Label(lv) THEN {} ELSE {"C13_ReadableOnComposite"}

Construct ==
  /\ i <= Len(Traces[tid]) /\ Ev.e = "C"
  /\ pair' = IF Ev.valid THEN [valid |-> TRUE, text |-> Ev.text, bg |-> Ev.bg, large |-> Ev.large, spell |-> Ev.spell]
             ELSE NoPair
  \* (Ev.text / Ev.bg are the colours the CALLER gave: where a side is an opaque CSS value that the library read as something
  \*  else than CSS defines, the harness has put the CSS meaning there and says so - C07's clause, a NOTE for the others)
  /\ fails' = fails \cup (IF Ev.valid THEN CompFails(Ev) \cup ReadableFails(Ev) ELSE {"X_ConstructInvalid"})
                     \cup (IF Ev.valid /\ Ev.cssOverride # <<>> THEN {"C07_GivenColourMisread"} ELSE {})
                     \* a colour written in one of the DOCUMENTED spellings (the generator says so) is a colour: a pair that is
                     \* refused can return nothing in the documented counterpart of its format
                     \cup (IF ~Ev.valid /\ Ev.mustParse /\ OutFormat(Ev.spell) # "other" THEN {"C06_OutFormat", "C07_DocumentedSpellingRejected"} ELSE {})
  /\ i' = i + 1 /\ UNCHANGED <<tid, seen, incon, nt>>

\* dE bound with guard band: "LE", "GT" or "CLOSE"
DeCmp(de, cap) == IF de < 0 THEN "CLOSE" ELSE IF de <= cap - DeGuard THEN "LE" ELSE IF de > cap + DeGuard THEN "GT" ELSE "CLOSE"

\* ---- C04: the chain of multi-phase search calls inside one run
ChainStepFails(s) ==
  IF s.out = <<>> THEN {"C04_StepNotAColour"}
  ELSE IF s.out = s["in"] THEN {}
  ELSE IF DeCmp(s.de4, s.cap4) = "GT" THEN {"C04_StepBounded"} ELSE {}
ChainStepIncon(s) == IF s.out # <<>> /\ s.out # s["in"] /\ DeCmp(s.de4, s.cap4) = "CLOSE" THEN {"C04_StepBounded"} ELSE {}
\* every call starts from the original text or from the previous call's output
ChainLinked(ch, text) ==
  \A k \in 1..Len(ch) : ch[k]["in"] = text \/ (k > 1 /\ ch[k]["in"] = ch[k-1].out)
ChainCaps(e, ch) ==
  \A k \in 1..Len(ch) : IF e.mode = 0 THEN ch[k].cap4 <= 50000
                        ELSE ch[k].cap4 <= 150000
ResultFromChain(ch, text, css) == css = text \/ \E k \in 1..Len(ch) : ch[k].out = css

FixFails(e) ==
  LET req == Required(pair.large, e.vr)
      mr  == IF e.css = <<>> THEN "NA" ELSE Meets(e.css, pair.bg, req)
      mt  == Meets(pair.text, pair.bg, req)
      ch  == e.chain
  IN
  (IF e.raised # "" THEN {"X_Raised"} ELSE {})
  \cup (IF e.css = <<>> THEN {"C01_NoReadback"} ELSE {})
  \cup (IF ~e.okbool THEN {"C01_FlagNotBool"} ELSE {})
  \* C01
  \cup (IF mr \in {"GE", "LT"} /\ ~FlagExactP(e.ok, mr = "GE") THEN {"C01_FlagExact"} ELSE {})
  \* C02
  \cup (IF mt = "GE" /\ e.css # <<>> /\ ~AlreadyOkP(TRUE, e.css = pair.text, e.ok) THEN {"C02_AlreadyOk"} ELSE {})
  \cup (IF mt = "LT" /\ e.css # <<>> /\ NotLower(e.css, pair.text, pair.bg) = "LT" THEN {"C02_NoHarm"} ELSE {})
  \* C03
  \cup (IF e.witKind = "witness" /\ Meets(e.wit, pair.bg, req) = "GE" /\ e.witDe4 <= WitnessMax4
           /\ mt = "LT" /\ e.css # <<>>
           /\ ~FindsWitnessP(TRUE, e.ok /\ mr = "GE", DeCmp(e.de4, SmallFix4) # "GT")
        THEN {"C03_FindsWitness"} ELSE {})
  \* C04
  \cup (IF e.css # <<>> /\ ~StrictCapP(e.mode, DeCmp(e.de4, StrictCap4) # "GT") THEN {"C04_StrictCap"} ELSE {})
  \cup (IF e.haveChain THEN UNION {ChainStepFails(ch[k]) : k \in 1..Len(ch)} ELSE {})
  \cup (IF e.haveChain /\ ~ChainLinked(ch, pair.text) THEN {"C04_ChainLinked"} ELSE {})
  \cup (IF e.haveChain /\ e.css # <<>> /\ ~ResultFromChain(ch, pair.text, e.css) THEN {"C04_ResultFromChain"} ELSE {})
  \* C06: documented output format for the input's spelling; both read-backs denote the judged colour
  \* (e.ref = the result of the same call on the same parsed colours given as int tuples, when recorded)
  \cup (IF OutFormat(pair.spell) # "other" /\ e.shape # OutFormat(pair.spell) THEN {"C06_OutFormat"} ELSE {})
  \cup (IF e.ref # <<>> /\ e.css # e.ref THEN {"C06_CssReadsBackJudged"} ELSE {})
  \cup (IF e.ref # <<>> /\ e.lib # e.ref THEN {"C06_LibReadsBackJudged"} ELSE {})
  \cup (IF e.css # e.lib THEN {"C06_ReadbacksAgree"} ELSE {})
  \* C16, against the runs seen earlier in this behaviour
  \cup UNION { (IF p.vr = e.vr /\ p.mode = 1 /\ e.mode = 2 /\ ~Mode2CoversMode1P(p.ok, p.css = e.css, e.ok) THEN {"C16_Mode2CoversMode1"} ELSE {})
               \cup (IF p.vr = e.vr /\ p.mode = 2 /\ e.mode = 1 /\ ~Mode2CoversMode1P(e.ok, p.css = e.css, p.ok) THEN {"C16_Mode2CoversMode1"} ELSE {})
               \cup (IF p.mode = e.mode /\ p.vr /\ ~e.vr /\ ~OrdinaryCoversPremiumP(p.ok, e.ok) THEN {"C16_OrdinaryCoversPremium"} ELSE {})
               \cup (IF p.mode = e.mode /\ ~p.vr /\ e.vr /\ ~OrdinaryCoversPremiumP(e.ok, p.ok) THEN {"C16_OrdinaryCoversPremium"} ELSE {})
               : p \in seen }

FixIncon(e) ==
  LET req == Required(pair.large, e.vr)
      mr  == IF e.css = <<>> THEN "NA" ELSE Meets(e.css, pair.bg, req)
      mt  == Meets(pair.text, pair.bg, req)
  IN (IF mr = "CLOSE" THEN {"C01_FlagExact"} ELSE {})
     \cup (IF mt = "CLOSE" THEN {"C02_AlreadyOk"} ELSE {})
     \cup (IF mt = "LT" /\ e.css # <<>> /\ NotLower(e.css, pair.text, pair.bg) = "CLOSE" THEN {"C02_NoHarm"} ELSE {})
     \cup (IF e.mode = 0 /\ e.css # <<>> /\ DeCmp(e.de4, StrictCap4) = "CLOSE" THEN {"C04_StrictCap"} ELSE {})
     \cup (IF e.witKind = "witness" /\ (Meets(e.wit, pair.bg, req) # "GE" \/ e.witDe4 > WitnessMax4) THEN {"C03_WitnessOracle"} ELSE {})
     \cup (IF e.witKind = "witness" /\ DeCmp(e.de4, SmallFix4) = "CLOSE" THEN {"C03_FindsWitness"} ELSE {})
     \cup (IF e.haveChain THEN UNION {ChainStepIncon(e.chain[k]) : k \in 1..Len(e.chain)} ELSE {})
     \* refinement-level only (never a violation): the schedules the code uses today
     \cup (IF e.haveChain /\ ~ChainCaps(e, e.chain) THEN {"D_ChainCaps"} ELSE {})

Fix ==
  /\ i <= Len(Traces[tid]) /\ Ev.e = "F" /\ pair.valid
  /\ LET e == Ev
         req == Required(pair.large, e.vr)
         mt == Meets(pair.text, pair.bg, req)
     IN /\ fails' = fails \cup FixFails(e)
        /\ incon' = incon \cup FixIncon(e)
        /\ seen' = seen \cup {[mode |-> e.mode, vr |-> e.vr, ok |-> e.ok, css |-> e.css]}
        /\ nt' = [nt EXCEPT !.c01 = @ + 1,
                            !.c02ok = @ + (IF mt = "GE" THEN 1 ELSE 0),
                            !.c02harm = @ + (IF mt = "LT" /\ e.css # pair.text THEN 1 ELSE 0),
                            !.c03 = @ + (IF e.witKind = "witness" THEN 1 ELSE 0),
                            !.c04strict = @ + (IF e.mode = 0 /\ e.css # pair.text THEN 1 ELSE 0),
                            !.c04chain = @ + (IF e.haveChain THEN Len(e.chain) ELSE 0),
                            !.c16a = @ + Cardinality({p \in seen : p.vr = e.vr /\ {p.mode, e.mode} = {1, 2} /\ (IF p.mode = 1 THEN p.ok ELSE e.ok)}),
                            !.c16b = @ + Cardinality({p \in seen : p.mode = e.mode /\ p.vr # e.vr /\ (IF p.vr THEN p.ok ELSE e.ok)})]
  /\ i' = i + 1 /\ UNCHANGED <<tid, pair>>

\* a Fix event on an invalid pair is a harness error
Stray ==
  /\ i <= Len(Traces[tid]) /\ Ev.e = "F" /\ ~pair.valid
  /\ fails' = fails \cup {"X_FixOnInvalidPair"}
  /\ i' = i + 1 /\ UNCHANGED <<tid, pair, seen, incon, nt>>

Finish ==
  /\ i = Len(Traces[tid]) + 1
  /\ KitFinish(tid, fails, incon)
  /\ KitCount("c01", nt.c01) /\ KitCount("c02ok", nt.c02ok) /\ KitCount("c02harm", nt.c02harm)
  /\ KitCount("c03", nt.c03) /\ KitCount("c04strict", nt.c04strict) /\ KitCount("c04chain", nt.c04chain)
  /\ KitCount("c16a", nt.c16a) /\ KitCount("c16b", nt.c16b)
  /\ i' = i + 1 /\ UNCHANGED <<tid, pair, seen, fails, incon, nt>>

Next == Construct \/ Fix \/ Stray \/ Finish
Spec == Init /\ [][Next]_vars
====
