SPECIFICATION ScenSpec
CONSTANTS RootPostOverwrites = FALSE
          FallbackWritten = TRUE
          CarryInvalid = TRUE
          HackPositions = {}
          NR = 3
INVARIANT Partition
INVARIANT CardMeetsTarget
INVARIANT FailedUnchanged
INVARIANT ReportedIsWrittenModuloKnown
INVARIANT ReportedIsWrittenModuloF6
CHECK_DEADLOCK FALSE
