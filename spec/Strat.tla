---- MODULE Strat ----
EXTENDS Integers, Sequences, FiniteSets, TLC, PairProps
CONSTANTS NC, NL, MaxIter1, MaxIter2,
          StrictCap, StepCap, RelaxedCap,   \* largest tolerance of the default / per-step / relaxed schedule (dE classes or units)
          DeTop                             \* dE values range over 1..DeTop
Colour == 0..(NC-1)
None == -1
\* MC_Strat.cfg uses dE classes: 1 <=2.5, 2 <=3.0 (StepCap), 3 <=5.0 (StrictCap), 4 <=15 (RelaxedCap), 5 beyond;
\* the trace specification TrStrat.tla uses reference dE in 1e-4 units.
Pairs == {p \in Colour \X Colour : p[1] < p[2]}
VARIABLES mode, minL, targetL, con, de, memo, pc, cur, iter, recRes, aRes, aOk, gres, result, success, r1, s1
vars == <<mode,minL,targetL,con,de,memo,pc,cur,iter,recRes,aRes,aOk,gres,result,success,r1,s1>>
Init == /\ mode = 1                      \* run mode 1 first, then mode 2 on the same oracle (C16a)
        /\ targetL \in 1..(NL-1) /\ minL \in 1..targetL
        /\ con \in [Colour -> 0..(NL-1)]
        /\ \E up \in [Pairs -> 1..DeTop] :
              de = [a \in Colour |-> [b \in Colour |-> IF a = b THEN 0 ELSE IF a < b THEN up[<<a,b>>] ELSE up[<<b,a>>]]]
        /\ memo = [x \in {} |-> 0]
        /\ pc = "dispatch" /\ cur = 0 /\ iter = 0 /\ recRes = None /\ aRes = None /\ aOk = FALSE /\ gres = None
        /\ result = None /\ success = FALSE /\ r1 = None /\ s1 = FALSE
\* contract of the multi-phase search, proved separately on Gac.tla:
\*   already >= target -> returns text ; otherwise text itself or a colour within the cap whose contrast is
\*   not lower (Gac.NotWorse: the descent's tie-break admits an equal-contrast colour)
GacChoices(text, cap) == IF con[text] >= targetL THEN {text}
                         ELSE {text} \cup {c \in Colour : con[c] >= con[text] /\ de[text][c] <= cap}
CallG(text, cap, ret) ==
   /\ \E r \in (IF <<text,cap>> \in DOMAIN memo THEN {memo[<<text,cap>>]} ELSE GacChoices(text, cap)) :
        /\ memo' = [x \in DOMAIN memo \cup {<<text,cap>>} |-> IF x = <<text,cap>> THEN r ELSE memo[x]]
        /\ gres' = r
   /\ pc' = ret
Finish(r, ok) == /\ result' = r /\ success' = ok /\ pc' = "done"
Dispatch == /\ pc = "dispatch"
            /\ IF con[0] >= minL THEN Finish(0, TRUE) /\ UNCHANGED <<memo,gres,cur,iter>>   \* already passes: returned as is
               ELSE IF mode = 0 THEN CallG(0, StrictCap, "strict_ret") /\ UNCHANGED <<cur,iter,result,success>>
               ELSE /\ pc' = "rec_loop" /\ cur' = 0 /\ iter' = 0 /\ UNCHANGED <<memo,gres,result,success>>
            /\ UNCHANGED <<mode,minL,targetL,con,de,recRes,aRes,aOk,r1,s1>>
StrictRet == /\ pc = "strict_ret" /\ Finish(gres, con[gres] >= minL)
             /\ UNCHANGED <<mode,minL,targetL,con,de,memo,cur,iter,recRes,aRes,aOk,gres,r1,s1>>
RecDone(r, ok) == IF mode = 1 \/ ok THEN Finish(r, ok) /\ UNCHANGED <<recRes,cur,iter>>
                  ELSE /\ recRes' = r /\ pc' = "a_loop" /\ cur' = 0 /\ iter' = 0 /\ UNCHANGED <<result,success>>
RecLoop == /\ pc = "rec_loop"
           /\ IF iter >= MaxIter1 THEN RecDone(cur, FALSE) /\ UNCHANGED <<memo,gres>>
              ELSE IF con[cur] >= minL THEN RecDone(cur, TRUE) /\ UNCHANGED <<memo,gres>>
              ELSE CallG(cur, StepCap, "rec_ret") /\ UNCHANGED <<cur,iter,recRes,result,success>>
           /\ UNCHANGED <<mode,minL,targetL,con,de,aRes,aOk,r1,s1>>
RecRet == /\ pc = "rec_ret"
          /\ IF gres = cur THEN RecDone(cur, con[cur] >= minL)
             ELSE IF con[gres] >= minL THEN RecDone(gres, TRUE)
             ELSE /\ cur' = gres /\ iter' = iter + 1 /\ pc' = "rec_loop" /\ UNCHANGED <<recRes,result,success>>
          /\ UNCHANGED <<mode,minL,targetL,con,de,memo,aRes,aOk,gres,r1,s1>>
ALoop == /\ pc = "a_loop"
         /\ IF iter >= MaxIter2 THEN /\ aRes' = cur /\ aOk' = FALSE /\ pc' = "b_start" /\ UNCHANGED <<memo,gres>>
            ELSE IF con[cur] >= minL THEN /\ aRes' = cur /\ aOk' = TRUE /\ pc' = "b_start" /\ UNCHANGED <<memo,gres>>
            ELSE CallG(cur, StepCap, "a_ret") /\ UNCHANGED <<aRes,aOk>>
         /\ UNCHANGED <<mode,minL,targetL,con,de,cur,iter,recRes,result,success,r1,s1>>
ARet == /\ pc = "a_ret"
        /\ IF gres = cur THEN /\ aRes' = cur /\ aOk' = (con[cur] >= minL) /\ pc' = "b_start" /\ UNCHANGED <<cur,iter>>
           ELSE IF con[gres] >= minL THEN /\ aRes' = gres /\ aOk' = TRUE /\ pc' = "b_start" /\ UNCHANGED <<cur,iter>>
           ELSE /\ cur' = gres /\ iter' = iter + 1 /\ pc' = "a_loop" /\ UNCHANGED <<aRes,aOk>>
        /\ UNCHANGED <<mode,minL,targetL,con,de,memo,recRes,gres,result,success,r1,s1>>
BStart == /\ pc = "b_start" /\ CallG(0, RelaxedCap, "b_ret")
          /\ UNCHANGED <<mode,minL,targetL,con,de,cur,iter,recRes,aRes,aOk,result,success,r1,s1>>
BRet == /\ pc = "b_ret"
        /\ LET bok == con[gres] >= minL IN
           IF aOk /\ bok THEN (IF de[0][aRes] <= de[0][gres] THEN Finish(aRes, TRUE) ELSE Finish(gres, TRUE))
           ELSE IF aOk THEN Finish(aRes, TRUE)
           ELSE IF bok THEN Finish(gres, TRUE)
           ELSE Finish(recRes, FALSE)
        /\ UNCHANGED <<mode,minL,targetL,con,de,memo,cur,iter,recRes,aRes,aOk,gres,r1,s1>>
\* after the mode-1 run, rerun in mode 2 (then mode 0) with the same oracle memo
Again == /\ pc = "done" /\ mode \in {1,2}
         /\ mode' = IF mode = 1 THEN 2 ELSE 0
         /\ r1' = (IF mode = 1 THEN result ELSE r1) /\ s1' = (IF mode = 1 THEN success ELSE s1)
         /\ pc' = "dispatch" /\ cur' = 0 /\ iter' = 0 /\ recRes' = None /\ aRes' = None /\ aOk' = FALSE /\ gres' = None
         /\ result' = None /\ success' = FALSE
         /\ UNCHANGED <<minL,targetL,con,de,memo>>
Next == Dispatch \/ StrictRet \/ RecLoop \/ RecRet \/ ALoop \/ ARet \/ BStart \/ BRet \/ Again
Spec == Init /\ [][Next]_vars
\* every run ends: under weak fairness of the next-state relation the three runs (mode 1, 2, 0) all reach "done"
\* (the step loops are bounded by MaxIter1 / MaxIter2 and by the search returning its input) - checked by MC_Strat_live.cfg
FairSpec == Spec /\ WF_vars(Next)
Terminates == <>(pc = "done" /\ mode = 0)
Done == pc = "done"
C01_FlagExact == Done => FlagExactP(success, con[result] >= minL)
C02_NoHarm    == Done => NoHarmP(con[result] >= con[0])
C02_AlreadyOk == Done => AlreadyOkP(con[0] >= minL, result = 0, success)
C04_StrictCap == Done => StrictCapP(mode, de[0][result] <= StrictCap)
C16a_Mode2CoversMode1 == Done /\ mode = 2 => Mode2CoversMode1P(s1, result = r1, success)
====
