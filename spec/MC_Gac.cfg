SPECIFICATION Spec
CONSTANTS NC = 3
          NL = 4
          Sched <- SchedStrict
INVARIANT Contract
INVARIANT NotWorse
INVARIANT AlreadyAtTarget
CHECK_DEADLOCK FALSE
