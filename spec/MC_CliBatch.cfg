SPECIFICATION Spec
CONSTANTS NF = 3
          SharedTable = FALSE
          LeakOnFault = FALSE
          KeepCmInputs = FALSE
INVARIANT Isolation
INVARIANT SkipBad
INVARIANT NoCmInput
INVARIANT RerunStable
CHECK_DEADLOCK FALSE
