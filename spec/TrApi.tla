---- MODULE TrApi ----
(***************************************************************************)
(* Trace specification of the public API (C12, C14, C15, C17).             *)
(* A behaviour is a recorded history of API operations (possibly merged    *)
(* from several threads or interpreter processes); one operation per       *)
(* state.  The state is Api.tla's (objs, memo, env); every clause of the   *)
(* operation's action is evaluated separately so the verdict names the     *)
(* clause that the observed call breaks.  The state is always advanced as  *)
(* the model prescribes (memo keeps the FIRST observed result).            *)
(***************************************************************************)
EXTENDS Api, Wcag, TraceKit

VARIABLES tid, i, fails, incon, nt
vars == <<objs, memo, env, tid, i, fails, incon, nt>>

Init == /\ ApiInit /\ tid \in 1..NTraces /\ i = 1 /\ fails = {} /\ incon = {}
        /\ nt = [new |-> 0, invalid |-> 0, repeat |-> 0, bulkEntries |-> 0, quiet |-> 0, asked |-> 0]
Ev == Traces[tid][i]
ToSet(s) == {s[j] : j \in 1..Len(s)}
When(cond, name) == IF cond THEN {} ELSE {name}

\* ---------------------------------------------------------------- new
TNew ==
  /\ Ev.op = "new"
  /\ LET e == Ev IN
     /\ fails' = fails
          \cup When(e.raised = "", "C14_ConstructRaised")
          \cup When(e.raised # "" \/ ConstructOk("", e.valid, e.rgbOk, e.rgbNone, e.errNonEmpty), "C14_OutcomeAlgebra")
          \cup When(e.raised # "" \/ ConstructPure(e.key, e.valid), "C15_ConstructPure")
          \cup When(e.argSame, "C15_ArgumentAltered")        \* the caller's own objects (lists) are as he passed them
          \cup When(Quiet(FALSE, FALSE, e.dout, ToSet(e.newFiles), ToSet(e.modFiles)), "C17_Quiet")
     /\ objs' = IF e.raised = "" THEN Put(objs, e.obj, [key |-> e.key, valid |-> e.valid]) ELSE objs
     /\ nt' = [nt EXCEPT !.new = @ + 1, !.invalid = @ + (IF e.raised = "" /\ ~e.valid THEN 1 ELSE 0)]
  /\ UNCHANGED <<memo, env, incon>>

\* ---------------------------------------------------------------- is_readable
TReadable ==
  /\ Ev.op = "readable"
  /\ LET e == Ev
         known == Has(objs, e.obj)
         k == IF known THEN <<objs[e.obj].key, -1, FALSE>> ELSE <<>>
     IN /\ fails' = fails
             \cup When(e.raised = "", "C14_ReadableRaised")
             \cup When(~known \/ e.raised # "" \/ ReadableOnInvalid(e.obj, e.label), "C14_InvalidNotReadable")
             \cup When(~known \/ e.raised # "" \/ ReadablePure(e.obj, e.label), "C15_ReadablePure")
        /\ memo' = IF known /\ e.raised = "" /\ ~Has(memo, k) THEN Put(memo, k, e.label) ELSE memo
  /\ UNCHANGED <<objs, env, incon, nt>>

\* ---------------------------------------------------------------- make_readable
TFix ==
  /\ Ev.op = "fix"
  /\ LET e == Ev
         known == Has(objs, e.obj)
         res == <<e.res, e.ok>>
         k == IF known THEN <<objs[e.obj].key, e.mode, e.vr>> ELSE <<>>
         nf == ToSet(e.newFiles)
         mf == ToSet(e.modFiles)
         plain == ~e.show /\ ~e.save
     IN /\ fails' = fails
             \* (e.fault: the report's name is taken by a directory - the OS's error may come through; a RETURNED answer is judged as ever)
             \cup When(e.raised = "" \/ (e.fault /\ known /\ objs[e.obj].valid), IF plain THEN "C14_FixRaised" ELSE "C17_PreviewRaised")
             \cup When(~known \/ e.raised # "" \/ FixOnInvalid(e.obj, res), "C14_InvalidFixNoneFalse")
             \* (on an invalid pair the answer IS (None, False) - with any arguments, so it is an answer, not an exception)
             \cup When(~known \/ objs[e.obj].valid \/ e.raised = "", "C14_InvalidFixNoneFalse")
             \cup When(~known \/ e.raised # "" \/ FixPure(e.obj, e.mode, e.vr, res),
                       IF plain THEN "C15_FixPure" ELSE "C17_SameResult")
             \cup When(FixKeepsObject(e.sameObj), "C15_ObjectAltered")
             \cup When(Quiet(e.show, e.save, e.dout, nf, mf), "C17_Quiet")
             \cup When(OnlyReport(e.save, nf, mf, QuickReport), "C17_OnlyReport")
        /\ memo' = IF known /\ e.raised = "" /\ ~Has(memo, k) THEN Put(memo, k, res) ELSE memo
        /\ env' = [out |-> env.out + e.dout, files |-> env.files \cup nf]
        /\ nt' = [nt EXCEPT !.repeat = @ + (IF known /\ Has(memo, k) THEN 1 ELSE 0),
                            !.quiet = @ + (IF plain THEN 1 ELSE 0), !.asked = @ + (IF plain THEN 0 ELSE 1)]
  /\ UNCHANGED <<objs, incon>>

\* ---------------------------------------------------------------- make_readable_bulk
\* status of a valid entry = lower-case label of the returned colour against that background at that size
StatusFails(r) ==
  IF r.css = <<>> THEN {"C12_StatusNoReadback"}
  ELSE LET lv == Level(r.css, r.bg, r.large) IN
       IF lv = "CLOSE" THEN {} ELSE When(r.status = LowerLabel(lv), "C12_StatusIsLabelOfResult")
TBulk ==
  /\ Ev.op = "bulk"
  /\ LET e == Ev
         nf == ToSet(e.newFiles)
         mf == ToSet(e.modFiles)
         ok == e.raised = ""
     IN /\ fails' = fails
             \cup When(ok \/ e.fault, "C14_BulkRaised")
             \cup When(~ok \/ BulkLength(e.entries, e.results), "C12_OneResultPerEntry")
             \cup When(~ok \/ BulkIsMap(e.entries, e.results, e.mode, e.vr), "C12_BulkIsMapOfSingle")
             \cup When(~ok \/ BulkInvalid(e.entries, e.results), "C12_InvalidEntryUnchanged")
             \cup (IF ok THEN UNION {StatusFails(e.results[j]) : j \in {x \in 1..Len(e.results) : x <= Len(e.entries) /\ e.entries[x].valid}} ELSE {})
             \cup When(e.argSame, "C15_ArgumentAltered")
             \cup When(Quiet(FALSE, e.save, e.dout, nf, mf), "C17_Quiet")
             \cup When(OnlyReport(e.save, nf, mf, BulkReport), "C17_OnlyReport")
             \* C17: with save_report the call returns what the plain call returns (so it must return at all, and be the same map)
             \cup When(~e.save \/ ok \/ e.fault, "C17_ReportRaised")
             \cup When(~e.save \/ ~ok \/ (BulkLength(e.entries, e.results) /\ BulkIsMap(e.entries, e.results, e.mode, e.vr)), "C17_SameResult")
        /\ incon' = incon \cup (IF ok /\ \E j \in 1..Len(e.results) : j <= Len(e.entries) /\ e.entries[j].valid /\ e.results[j].css # <<>>
                                          /\ Level(e.results[j].css, e.results[j].bg, e.results[j].large) = "CLOSE"
                                THEN {"C12_StatusIsLabelOfResult"} ELSE {})
        /\ env' = [out |-> env.out + e.dout, files |-> env.files \cup nf]
        /\ nt' = [nt EXCEPT !.bulkEntries = @ + Len(e.entries)]
  /\ UNCHANGED <<objs, memo>>

\* ---------------------------------------------------------------- anything else in the same process (CLI run ...)
TOther ==
  /\ Ev.op = "other"
  /\ env' = [out |-> env.out + Ev.dout, files |-> env.files \cup ToSet(Ev.newFiles)]
  /\ UNCHANGED <<objs, memo, fails, incon, nt>>

\* ---------------------------------------------------------------- importing the package (C17: quiet as well)
TImport ==
  /\ Ev.op = "import"
  /\ fails' = fails \cup When(Ev.raised = "", "C17_ImportRaised")
                   \cup When(Quiet(FALSE, FALSE, Ev.dout, ToSet(Ev.newFiles), {}), "C17_QuietImport")
  /\ UNCHANGED <<objs, memo, env, incon, nt>>

\* constructing and querying are quiet too
QuietNew == Ev.op = "new" => TRUE

Step == /\ i <= Len(Traces[tid]) /\ (TNew \/ TReadable \/ TFix \/ TBulk \/ TOther \/ TImport) /\ i' = i + 1 /\ UNCHANGED tid
Finish == /\ i = Len(Traces[tid]) + 1 /\ KitFinish(tid, fails, incon)
          /\ KitCount("constructed", nt.new) /\ KitCount("invalid_inputs", nt.invalid) /\ KitCount("repeated_calls", nt.repeat)
          /\ KitCount("bulk_entries", nt.bulkEntries) /\ KitCount("plain_calls", nt.quiet) /\ KitCount("show_or_save_calls", nt.asked)
          /\ i' = i + 1 /\ UNCHANGED <<objs, memo, env, tid, fails, incon, nt>>
Next == Step \/ Finish
Spec == Init /\ [][Next]_vars
====
