SPECIFICATION Spec
CONSTANTS MaxSeg = 4
          JoinAllSuffixes = TRUE
INVARIANT NeverReconsumed
INVARIANT NeverOverwritesInput
CHECK_DEADLOCK FALSE
