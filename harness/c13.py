"""C13 - translucent text is judged as it will be seen over its own background.

Abstract inputs (foreground as rgb ints or H/S/L, alpha, background opaque or itself translucent) are rendered in the
three translucent spellings and given to ColorPair; TrPair.tla's Construct action judges pair.text.rgb / pair.bg.rgb
against CssColor.tla's source-over rule (over the pair's OWN background; translucent backgrounds over white),
is_readable against Wcag.tla on the composite, and the following Fix events carry the C01/C02 predicates on it.
"""
import os, sys, random, json, time
sys.path.insert(0, os.path.dirname(os.path.abspath(__file__)))
import vlib, refs, pairs, pairchecks
from c07 import tenths, fn_variant

PID = "C13"


def a_text(an, k):
    if an == 0:
        return "0" if k % 2 else "0.0"
    if an == 1000:
        return "1" if k % 2 else "1.0"
    if k % 7 == 2:
        return ("%.1f" % (an / 10)).rstrip("0").rstrip(".") + "%"        # percentage form: 1% = 0.01, 0.5% = 0.005, 50% = 0.5
    s = ("%.3f" % (an / 1000)).rstrip("0")
    return s[1:] if (k % 5 == 0 and s.startswith("0.")) else s


def specs_for(t, rnd):
    out = []
    n = 500 if t == "quick" else 25000
    lattice = [v for v in range(0, 256, 8)] + [255]
    # (thousandths) the end points, the round values, and the last few thousandths before each end point
    alphas = [0, 1, 5, 10, 250, 500, 750, 990, 999, 1000, 991, 992, 993, 994, 995, 997, 2, 3, 4, 6, 8, 9]
    hist = []   # some texts are reused over different backgrounds (history / caching must not matter)
    for k in range(n):
        an = rnd.choice(alphas) if rnd.random() < 0.6 else rnd.randrange(1001)
        fg = tuple(rnd.choice(lattice) for _ in range(3))
        while len(set(fg)) < 3:
            fg = tuple(rnd.choice(lattice) for _ in range(3))
        kind = k % 3
        bgv = tuple(rnd.randrange(256) for _ in range(3))
        if rnd.random() < 0.15 or (an in (991, 992, 993, 994, 6, 8, 9) and rnd.random() < 0.6):
            bgv = rnd.choice([(0, 0, 0), (255, 255, 255), (128, 128, 128)])
            if an in (991, 992, 993, 994, 6, 8, 9):
                # a hair from opaque / from transparent: a skipped blend shows only when text and background are far apart
                bgv = rnd.choice([(0, 0, 0), (255, 255, 255), (255, 0, 255), (0, 255, 0)])
                fg = tuple(255 - v for v in bgv)
        elif rnd.random() < 0.15 or k % 15 == 2:
            # two equal channels, the third different (blue, navy, yellow, ...): "is this grey?" tests that look at two channels only
            x_, y_ = rnd.randrange(256), rnd.randrange(256)
            bgv = rnd.choice([(x_, x_, y_), (x_, y_, x_), (y_, x_, x_), (0, 0, 255), (255, 255, 0), (0, 0, 128)])
        ban = 1000
        r10 = k % 10
        if r10 == 1:      # normalised float tuple: multiples of 0.2 are exact (0.2 * 255 = 51)
            q = [rnd.randrange(6) for _ in range(3)]
            bgv = tuple(51 * x for x in q)
            bg_in = tuple(x / 5 for x in q) if k % 20 == 1 else [x / 5 for x in q]
        elif r10 == 2:    # keyword background
            name = rnd.choice(sorted(refs._named()))
            hx = refs._named()[name]
            bgv = (int(hx[1:3], 16), int(hx[3:5], 16), int(hx[5:7], 16))
            bg_in = name
        elif r10 == 3:    # percentage rgb(): multiples of 20% are exact
            q = [rnd.randrange(6) for _ in range(3)]
            bgv = tuple(51 * x for x in q)
            bg_in = "rgb(%d%%, %d%%, %d%%)" % tuple(20 * x for x in q)
        else:
            bg_in = rnd.choice([bgv, "#%02x%02x%02x" % bgv, f"rgb({bgv[0]}, {bgv[1]}, {bgv[2]})", list(bgv),
                                ("#%02x%02x%02x" % bgv).upper(), ("%02x%02x%02x" % bgv)])
            if isinstance(bg_in, str) and not bg_in.startswith(("#", "rgb")) and bg_in.lower() in refs._named():
                bg_in = "#" + bg_in
        if k % 9 == 0:       # translucent background: goes over white
            ban = rnd.choice([0, 300, 500, 900, rnd.randrange(1001)])
            bg_in = rnd.choice([f"rgba({bgv[0]}, {bgv[1]}, {bgv[2]}, {a_text(ban, k)})", (bgv[0], bgv[1], bgv[2], ban / 1000)])
            if k % 18 == 0:
                # hsla() background (whole degrees / percent, no rounding tie), fully transparent ones included
                for _try in range(20):
                    hh, ss, ll = rnd.randrange(360), rnd.randrange(101), rnd.randrange(101)
                    rb = refs.css_read_opaque(f"hsl({hh}, {ss}%, {ll}%)")
                    if rb:
                        bgv = rb
                        ban = rnd.choice([0, 0, 500, 1000, ban])
                        bg_in = fn_variant("hsla", [str(hh), f"{ss}%", f"{ll}%", a_text(ban, k + _try)], k)
                        break
        kind = k % 3
        if k % 13 == 5:
            fg = tuple(rnd.choice((0, 1)) for _ in range(3)) if rnd.random() < 0.7 else tuple(rnd.choice((0, 1, 2, 255)) for _ in range(3))
            if an in (0, 1000) and rnd.random() < 0.5:
                an = rnd.choice([500, 250, 900])
            kind = 1
        if hist and k % 7 == 3:
            kind, fg, an, text, comp0 = rnd.choice(hist)
            comp = dict(comp0)
        elif kind == 0:
            text = fn_variant("rgba", [str(x) for x in fg] + [a_text(an, k)], k)
            comp = {"kind": "rgb", "v": list(fg), "an": an, "ad": 1000}
        elif kind == 1:
            text = (fg[0], fg[1], fg[2], an / 1000) if k % 2 else [fg[0], fg[1], fg[2], an / 1000]
            if an == 1000 and k % 4 == 1:
                text = (fg[0], fg[1], fg[2], 1)
            comp = {"kind": "rgb", "v": list(fg), "an": an, "ad": 1000}
        else:
            h, s10, l10 = rnd.randrange(360), rnd.randrange(1001), rnd.randrange(1001)
            if k % 5 == 2:
                s10 = rnd.choice([0, 0, 0, 1, 1000])          # achromatic (and fully saturated) texts
                if an in (0, 1000):
                    an = rnd.choice([250, 500, 750])
            text = fn_variant("hsla", [str(h), tenths(s10) + "%", tenths(l10) + "%", a_text(an, k)], k)
            if k % 12 in (2, 8):
                # the alpha after a slash (the parser's "slash for alpha"): hsla(h, s%, l% / a) - the same four values
                text = f"hsla({h}, {tenths(s10)}%, {tenths(l10)}%{('/', ' / ', ' /')[k % 3]}{a_text(an, k)})"
            comp = {"kind": "hsl", "h": h, "s": s10, "l": l10, "an": an, "ad": 1000}
        if len(hist) < 60 and k % 7 != 3:
            hist.append((kind, fg, an, text, comp))
        if k % 11 == 7 and comp["kind"] == "rgb" and 0 < an < 1000:
            # text and background are the very same translucent value (same spelling): the background goes over white, the
            # text over that composite
            bg_in = text
            bgv, ban = tuple(comp["v"]), an
        comp.update({"bgv": list(bgv), "ban": ban, "bad": 1000})
        large = bool(rnd.getrandbits(1))
        runs = [(rnd.choice((0, 1, 2)), bool(rnd.getrandbits(1)))] if k % 4 else []
        out.append(dict(text=text, bg=bg_in, large=large, spell=("rgbafn", "rgbatuple", "hslafn")[kind], comp=comp, runs=runs,
                        chain=False))
    return out


def main():
    t = vlib.tier()
    rnd = random.Random(vlib.seed() * 32452843 + 13)
    rep = vlib.Report(PID)
    rep.assumptions = ["TLC/SANY", "WCAG tables generator", "harness renders abstract translucent values into rgba()/hsla()/RGBA-tuple spellings"]
    rep.rule = ("(foreground, alpha in thousandths incl. 0, .001, .999, 1, background opaque or translucent) x 3 translucent spellings, "
                "texts re-used over different backgrounds; distinct = distinct (text, background) inputs")
    rep.add_model("MC_CssColor", vlib.check_model("MC_CssColor", "MC_CssColor.cfg"),
                  "compositing end points (alpha 0 / 1), admissible-set sanity, hsl exact value in thousandths consistent with rounding")
    specs = specs_for(t, rnd)
    behs = pairs.record(specs)
    bad_construct = [(s, b) for s, b in zip(specs, behs) if not (b and b[0].get("valid"))]
    keep = [(s, b) for s, b in zip(specs, behs) if b and b[0].get("valid")]
    specs = [s for s, _ in keep]
    behs = [b for _, b in keep]
    agg = vlib.validate_traces("TrPair", behs)
    rep.add_traces(agg, len(behs))
    rep.evaluations = len(behs)
    rep.nontrivial = len({(json.dumps(s["text"]), json.dumps(s["bg"])) for s in specs})
    rep.extra["translucent_backgrounds"] = sum(1 for s in specs if s["comp"]["ban"] != 1000)
    rep.extra["alpha_zero_or_one"] = sum(1 for s in specs if s["comp"]["an"] in (0, 1000))
    for b in behs[:4]:
        rep.sample({"behaviour": b[:2]})
    for s, b in bad_construct:   # an in-range translucent colour the library refuses: that is C07/C14 territory, but the pair
        rep.violation("C13_TranslucentRejected", dict(input=dict(text=s["text"], bg=s["bg"]), behaviour=b,
                      reproduce=f"ColorPair({s['text']!r}, {s['bg']!r}).is_valid"))
    pairchecks.PREFIX[PID] = ("C13_", "C01_FlagExact", "C02_")
    pairchecks.classify(rep, PID, specs, behs, agg)
    return rep.finish()


if __name__ == "__main__":
    vlib.main_wrapper(main)
