---- MODULE FmtGrid ----
(***************************************************************************)
(* C06, exhaustive half: for every colour of a red plane and each output   *)
(* format {hex, rgb(), hsl(), tuple} the value produced by the library's   *)
(* formatter must have the documented shape and read back - through the    *)
(* library's own parser AND through the CSS reference reader - as exactly  *)
(* that colour.  Packed read-back r*65536+g*256+b; -1 = could not be read  *)
(* (not valid CSS / refused), -2 = wrong shape for the format.             *)
(***************************************************************************)
EXTENDS Integers, Sequences, TLC, Json, IOUtils
VARIABLES r
Reds == JsonDeserialize(IOEnv.GRID_DIR \o "/reds.json")
Init == r \in {Reds[j] : j \in 1..Len(Reds)}
Next == UNCHANGED r
Spec == Init /\ [][Next]_r
Chunk == JsonDeserialize(IOEnv.GRID_DIR \o "/fmt_" \o ToString(r) \o ".json")
ReadsBack(m) == \A g \in 0..255 : \A b \in 0..255 : m[g + 1][b + 1] = r * 65536 + g * 256 + b
HexOk == LET c == Chunk IN ReadsBack(c.hex_lib) /\ ReadsBack(c.hex_css)
RgbOk == LET c == Chunk IN ReadsBack(c.rgb_lib) /\ ReadsBack(c.rgb_css)
HslOk == LET c == Chunk IN ReadsBack(c.hsl_lib) /\ ReadsBack(c.hsl_css)
TupleOk == LET c == Chunk IN ReadsBack(c.tup_lib) /\ ReadsBack(c.tup_css)
====
