#!/usr/bin/env python3
"""Generate harness/end_pairs.json: EVERY 8-bit colour whose WCAG contrast ratio against pure white or pure black lies
within 5e-5 of a label threshold (3.0, 4.5, 7.0) - the colours on which a rounded cut-off in a "white page" / "dark page"
short cut would show (a cut-off rounded to six decimals moves the boundary by up to 5e-6 of ratio).  Found with numpy over
all 2^24 luminances (tooling interpreter python3-vt) and stored as INPUT DATA only: which side of the threshold a colour is
on is decided by TLC with Wcag.tla's CmpRatioFine.  Deterministic.  Usage: python3-vt tools/gen_end_pairs.py"""
import json, os
import numpy as np

W = 5e-5


def main():
    v = np.arange(256) / 255.0
    lin = np.where(v <= 0.04045, v / 12.92, ((v + 0.055) / 1.055) ** 2.4)
    idx = np.arange(1 << 24, dtype=np.uint32)
    lum = 0.2126 * lin[idx >> 16] + 0.7152 * lin[(idx >> 8) & 255] + 0.0722 * lin[idx & 255]
    out = {}
    for name, ratio in (("white", 1.05 / (lum + 0.05)), ("black", (lum + 0.05) / 0.05)):
        for t in (3.0, 4.5, 7.0):
            sel = np.nonzero(np.abs(ratio - t) <= W)[0]
            order = np.argsort(np.abs(ratio[sel] - t), kind="stable")
            cols = [[int(x) >> 16, (int(x) >> 8) & 255, int(x) & 255] for x in sel[order][:400]]
            out[f"{name}_{t}"] = cols
    path = os.path.join(os.path.dirname(os.path.abspath(__file__)), "..", "harness", "end_pairs.json")
    with open(path, "w") as f:
        json.dump(out, f, separators=(",", ":"))
    print({k: len(c) for k, c in out.items()})


if __name__ == "__main__":
    main()
