---- MODULE TrBatch ----
(***************************************************************************)
(* Trace specification of directory runs (C18).  A behaviour is            *)
(*   DirRun(1) -> DirRun(2)  over one materialised tree; each run event    *)
(* lists, per file slot, its kind (by construction), whether the tool      *)
(* reported it, the content id of its *_cm.css (0 = none), and the content *)
(* id the tool produces when run on that file alone.                       *)
(***************************************************************************)
EXTENDS Integers, Sequences, BatchProps, TraceKit
VARIABLES tid, i, first, fails, incon, nt
vars == <<tid, i, first, fails, incon, nt>>
Init == tid \in 1..NTraces /\ i = 1 /\ first = <<>> /\ fails = {} /\ incon = {} /\ nt = [files |-> 0, faults |-> 0]
Ev == Traces[tid][i]
When(c, name) == IF c THEN {} ELSE {name}
ToSet(s) == {s[j] : j \in 1..Len(s)}
FileFails(f) ==
  When(IsolationP(f.kind, f.out, f.single) \/ f.out = 0, "C18_Isolation")
  \cup When(SkipBadP(f.kind, f.reported, f.out # 0), IF f.kind \in FaultKinds THEN "C18_BadFileReportedAndSkipped" ELSE "C18_ValidFileProcessed")
  \cup When(NoCmInputP(f.kind, f.cmcm, f.reported), "C18_NoCmInput")
  \cup When(f.inputSame, "C09_InputsUntouched")
DirRun ==
  /\ i <= Len(Traces[tid])
  /\ LET e == Ev IN
     /\ fails' = fails
          \cup When(e.exit = 0 /\ e.exception = "", "C18_RunContinues")
          \cup UNION {FileFails(e.files[j]) : j \in 1..Len(e.files)}
          \cup When(e.extraNew = <<>>, "C18_OnlyOutputsCreated")
          \cup (IF e.n = 2
                THEN When(\A j \in 1..Len(e.files) : RerunStableP(e.files[j].out, first[j].out), "C18_RerunStable")
                ELSE {})
     /\ first' = IF e.n = 1 THEN e.files ELSE first
     /\ nt' = [files |-> nt.files + Len(e.files),
               faults |-> nt.faults + Len(SelectSeq(e.files, LAMBDA f : f.kind \in FaultKinds \cup WriteFaultKinds))]
  /\ i' = i + 1 /\ UNCHANGED <<tid, incon>>
Finish == /\ i = Len(Traces[tid]) + 1 /\ KitFinish(tid, fails, incon)
          /\ KitCount("files", nt.files) /\ KitCount("faulty_files", nt.faults)
          /\ i' = i + 1 /\ UNCHANGED <<tid, first, fails, incon, nt>>
Next == DirRun \/ Finish
Spec == Init /\ [][Next]_vars
====
