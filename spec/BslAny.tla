---- MODULE BslAny ----
(***************************************************************************)
(* The bookkeeping of the lightness binary search (binary_search_lightness)*)
(* under ARBITRARY oracle answers: in every iteration the probed candidate *)
(* may be invalid, beyond the tolerance, or within it with any contrast    *)
(* and any distance rank.  What must hold whatever the colour science      *)
(* says (C04): the result is nothing or a candidate that was within the    *)
(* tolerance; and (C03, bookkeeping half): if some probed in-tolerance     *)
(* candidate met the target, the result meets the target.                  *)
(***************************************************************************)
EXTENDS Integers, TLC
CONSTANTS K,            \* iterations (20 in the code)
          TrackPassing  \* TRUE = code after the repair; FALSE = before
Ranks == 0..2
VARIABLES it, best, bestDe, bestCon, bestPass, anyPass, done
vars == <<it, best, bestDe, bestCon, bestPass, anyPass, done>>
\* best: "none" | "within" (a recorded candidate is by construction within the tolerance) | "beyond"
Init == it = 0 /\ best = "none" /\ bestDe = 99 /\ bestCon = -1 /\ bestPass = FALSE /\ anyPass = FALSE /\ done = FALSE
Probe ==
  /\ ~done /\ it < K
  /\ \E valid \in BOOLEAN, within \in BOOLEAN, meets \in BOOLEAN, de \in Ranks, con \in Ranks :
       IF ~valid \/ ~within
       THEN UNCHANGED <<best, bestDe, bestCon, bestPass, anyPass>>          \* discarded before it can be recorded
       ELSE IF meets
            THEN /\ anyPass' = TRUE
                 /\ IF (IF TrackPassing THEN ~bestPass \/ de < bestDe ELSE de < bestDe)
                    THEN best' = "within" /\ bestDe' = de /\ bestCon' = con + 3 /\ bestPass' = TRUE
                    ELSE UNCHANGED <<best, bestDe, bestCon, bestPass>>
            ELSE /\ UNCHANGED anyPass
                 /\ IF (IF TrackPassing THEN ~bestPass ELSE TRUE) /\ con > bestCon
                    THEN best' = "within" /\ bestDe' = de /\ bestCon' = con /\ UNCHANGED bestPass
                    ELSE UNCHANGED <<best, bestDe, bestCon, bestPass>>
  /\ it' = it + 1 /\ UNCHANGED done
Finish == ~done /\ it = K /\ done' = TRUE /\ UNCHANGED <<it, best, bestDe, bestCon, bestPass, anyPass>>
Next == Probe \/ Finish
Spec == Init /\ [][Next]_vars
Contract == best \in {"none", "within"}
\* a candidate meeting the target has con+3 > any failing candidate's con, so bestCon >= 3 iff the recorded one meets
KeepsPassing == done /\ anyPass => bestCon >= 3
====
