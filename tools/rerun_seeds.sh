#!/bin/sh
# tools/rerun_seeds.sh [tier]: apply every seeded change to a COPY of the repository ($VP_RUN_REPO when started with
# `vp run --with-repo`, else a scratch worktree), run the check of the property it breaks, and print a catch table.
# Never touches /repo.
TIER="${1:-quick}"
SHARD="${2:-0}"      # rerun_seeds.sh <tier> <i> <n>: only every n-th seed, starting with the i-th (several shards may run side by side,
NSHARD="${3:-1}"     #                                 each on its own copy of the repository)
HERE="$(cd "$(dirname "$0")/.." && pwd)"
if [ -n "${VP_RUN_REPO:-}" ]; then R="$VP_RUN_REPO"; else R=$(mktemp -d /tmp/seedrepo.XXXXXX); rmdir "$R"; git -C /repo worktree add -q --detach "$R" HEAD; trap 'git -C /repo worktree remove --force "$R"' EXIT; fi
export VERIF_REPO="$R"
miss=0
k=0
for d in "$HERE"/seeded/*/; do
  k=$((k+1))
  [ $((k % NSHARD)) = "$SHARD" ] || continue
  id=$(basename "$d")
  prop=$(/venv/bin/python -c "import json,sys; print(json.load(open(sys.argv[1]))['breaks_property'])" "$d/meta.json")
  git -C "$R" checkout -q -- . ; git -C "$R" apply "$d/patch.diff" || { echo "$id NOAPPLY"; continue; }
  out=$(cd "$HERE" && PYTHONPATH="$R/src" VERIF_TIER="$TIER" ./check "$prop" 2>&1)
  rc=$?
  nv=$(echo "$out" | grep -c "^VIOLATION")
  echo "$id property=$prop exit=$rc violations=$nv $(echo "$out" | grep '^VIOLATION' | sed 's/.*# //' | sort -u | head -3 | tr '\n' ' ')"
  [ "$rc" = 1 ] || miss=$((miss+1))
  git -C "$R" checkout -q -- .
done
echo "MISSED: $miss"
