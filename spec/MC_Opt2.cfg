SPECIFICATION Spec
CONSTANTS NC = 3
          MaxIter1 = 2
          MaxIter2 = 2
INVARIANT C01_FlagExact
INVARIANT C02_NoHarm
INVARIANT C04_StrictCap
INVARIANT C04_Steps
INVARIANT C16b
CHECK_DEADLOCK FALSE
