---- MODULE Api ----
(***************************************************************************)
(* The public Python API of cm-colors as a state machine.                  *)
(*                                                                         *)
(* The library keeps NO state of its own: the only state is                *)
(*   objs : the ColorPair objects the client has constructed,              *)
(*   env  : what the client can observe outside return values (bytes       *)
(*          written to stdout/stderr, files in the working directory),     *)
(*   memo : a history variable - the function "arguments -> result" as far *)
(*          as it has been observed.  Every result must agree with it      *)
(*          (C15: results are pure functions of the arguments).            *)
(* Each operation's clauses are named predicates so that the trace         *)
(* specification (TrApi.tla) can report which clause an observed call      *)
(* breaks; the actions below are their conjunctions and are what TLC       *)
(* explores at design level (MC_Api).                                      *)
(*                                                                         *)
(* Results and arguments are opaque ids (interned by the harness).         *)
(***************************************************************************)
EXTENDS Integers, Sequences, FiniteSets, TLC

NoneFalse == <<0, FALSE>>       \* the result (None, False); a result is <<colour id, success>>, colour id 0 = None
QuickReport == "cm_colors_quick_report.html"
BulkReport == "cm_colors_bulk_report.html"
InvalidStatus == "invalid color"
ClaimsReadable(status) == status \in {"readable", "very readable"}

VARIABLES objs, memo, env
apiVars == <<objs, memo, env>>

ApiInit == /\ objs = <<>>          \* function: object id -> [key, valid]
           /\ memo = <<>>          \* function: <<key, mode, vr>> -> result id
           /\ env = [out |-> 0, files |-> {}]

Has(f, x) == x \in DOMAIN f
Put(f, x, v) == [y \in DOMAIN f \cup {x} |-> IF y = x THEN v ELSE f[y]]

\* ---------------------------------------------------------------- construct (C14)
\* outcome algebra: exactly Valid(rgb of three ints 0..255) or Invalid(non-empty error, rgb None); never raised
ConstructOk(raised, valid, rgbOk, rgbNone, errNonEmpty) ==
  /\ raised = ""
  /\ valid => rgbOk
  /\ ~valid => (rgbNone /\ errNonEmpty)
\* validity is a function of the input as well
ConstructPure(key, valid) == \A o \in DOMAIN objs : objs[o].key = key => objs[o].valid = valid
New(o, key, valid) ==
  /\ ConstructPure(key, valid)
  /\ objs' = Put(objs, o, [key |-> key, valid |-> valid])
  /\ UNCHANGED <<memo, env>>

\* ---------------------------------------------------------------- is_readable
ReadableOnInvalid(o, label) == ~objs[o].valid => label = "Not Readable"
ReadablePure(o, label) == LET k == <<objs[o].key, -1, FALSE>> IN Has(memo, k) => memo[k] = label
Readable(o, label) ==
  /\ Has(objs, o) /\ ReadableOnInvalid(o, label) /\ ReadablePure(o, label)
  /\ memo' = Put(memo, <<objs[o].key, -1, FALSE>>, label)
  /\ UNCHANGED <<objs, env>>

\* ---------------------------------------------------------------- make_readable
\* C14: on an invalid pair the answer is (None, False)
FixOnInvalid(o, res) == ~objs[o].valid => res = NoneFalse
\* C15: same arguments, same result - whatever happened in between, on whichever object
FixPure(o, mode, vr, res) == LET k == <<objs[o].key, mode, vr>> IN Has(memo, k) => memo[k] = res
\* C15: the object is not altered
FixKeepsObject(sameObj) == sameObj
\* C17: nothing is written unless asked
Quiet(show, save, dout, newFiles, modFiles) == (~show /\ ~save) => (dout = 0 /\ newFiles = {} /\ modFiles = {})
\* C17: the only file a report request writes is the documented one
OnlyReport(save, newFiles, modFiles, report) == (newFiles \cup modFiles) \subseteq (IF save THEN {report} ELSE {})
\* C17: show / save never change the result (a special case of FixPure: the key ignores show and save)
Fix(o, mode, vr, show, save, res, dout, newFiles, modFiles) ==
  /\ Has(objs, o)
  /\ FixOnInvalid(o, res) /\ FixPure(o, mode, vr, res)
  /\ Quiet(show, save, dout, newFiles, modFiles) /\ OnlyReport(save, newFiles, modFiles, QuickReport)
  /\ memo' = Put(memo, <<objs[o].key, mode, vr>>, res)
  /\ env' = [out |-> env.out + dout, files |-> env.files \cup newFiles]
  /\ UNCHANGED objs

\* ---------------------------------------------------------------- make_readable_bulk (C12)
\* entries: sequence of [key, valid]; results: sequence of [res, status]
\* one result per entry, in order
BulkLength(entries, results) == Len(results) = Len(entries)
\* each valid entry's colour is what the single-pair API returns for that entry alone
BulkIsMap(entries, results, mode, vr) ==
  \A j \in 1..Len(entries) : j <= Len(results) /\ entries[j].valid =>
     LET k == <<entries[j].key, mode, vr>> IN Has(memo, k) => memo[k][1] = results[j].res
\* invalid entries come back unchanged with a status that never claims readability
BulkInvalid(entries, results) ==
  \A j \in 1..Len(entries) : j <= Len(results) /\ ~entries[j].valid =>
     results[j].unchanged /\ ~ClaimsReadable(results[j].status)
Bulk(entries, mode, vr, save, results, dout, newFiles, modFiles) ==
  /\ BulkLength(entries, results) /\ BulkIsMap(entries, results, mode, vr) /\ BulkInvalid(entries, results)
  /\ Quiet(FALSE, save, dout, newFiles, modFiles) /\ OnlyReport(save, newFiles, modFiles, BulkReport)
  /\ env' = [out |-> env.out + dout, files |-> env.files \cup newFiles]
  /\ UNCHANGED <<objs, memo>>      \* a bulk call is checked against the single-pair answers; it defines none itself

\* ---------------------------------------------------------------- anything else in the same process (CLI run, other calls)
\* leaves the API's function untouched: modelled as a step that changes only env
Other(dout, newFiles) ==
  /\ env' = [out |-> env.out + dout, files |-> env.files \cup newFiles]
  /\ UNCHANGED <<objs, memo>>
====
