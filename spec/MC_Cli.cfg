SPECIFICATION Spec
CONSTANTS RootPostOverwrites = FALSE
          FallbackWritten = TRUE
          CarryInvalid = TRUE
          HackPositions = {}
          NR = 3
INVARIANT Partition
INVARIANT CardMeetsTarget
INVARIANT FailedUnchanged
INVARIANT ReportedIsWrittenModuloKnown
INVARIANT ReportedIsWrittenModuloF6
INVARIANT OutputWritten
CHECK_DEADLOCK FALSE
