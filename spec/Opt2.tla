---- MODULE Opt2 ----
EXTENDS Integers, Sequences, FiniteSets, TLC, PairProps
CONSTANTS NC,        \* number of abstract colours (0 = original text)
          MaxIter1,  \* recursive iterations (10 in code)
          MaxIter2   \* extended iterations (15 in code)
Colour == 0..(NC-1)
None == -1
\* tolerance classes: 1: <=2.5 (early-return eligible) 2: <=3.0  3: <=5.0  4: <=15.0 ; 5 = beyond
SchedDefault == <<1,2,3>>
SchedStep    == <<1,2>>
SchedRelaxed == <<1,2,3,4>>
TargetL == 2
VARIABLES sPrem, phaseNo, mode, minL, con, de, memoB, memoG,
          pc, stack,           \* strategy-level control
          cur, iter, recRes, recOk, aRes, aOk, bRes, bOk,
          g,                   \* multi-phase search frame (record) or <<>>
          result, success, chain
vars == <<sPrem,phaseNo,mode,minL,con,de,memoB,memoG,pc,stack,cur,iter,recRes,recOk,aRes,aOk,bRes,bOk,g,result,success,chain>>

Pairs == {p \in Colour \X Colour : p[1] < p[2]}
SymDe(f) == \A a,b \in Colour : f[a][b] = f[b][a] /\ (f[a][b] = 0 <=> a = b)
Init == /\ mode \in 0..1
        /\ minL = 2                      \* 2 = very_readable (min = target)
        /\ con \in [Colour -> 0..3]
        /\ con[0] < 1                      \* otherwise the early "already passes" return
        /\ \E up \in [Pairs -> 1..4] :
              de = [a \in Colour |-> [b \in Colour |-> IF a = b THEN 0 ELSE IF a < b THEN up[<<a,b>>] ELSE up[<<b,a>>]]]
        /\ memoB = [x \in {} |-> 0] /\ memoG = [x \in {} |-> 0]
        /\ pc = "dispatch" /\ stack = <<>>
        /\ cur = 0 /\ iter = 0 /\ recRes = None /\ recOk = FALSE
        /\ aRes = None /\ aOk = FALSE /\ bRes = None /\ bOk = FALSE
        /\ sPrem = FALSE /\ phaseNo = 1
        /\ g = <<>> /\ result = None /\ success = FALSE /\ chain = <<>>

\* ---------- multi-phase search (generate_accessible_color) ----------
StartG(text, sched, ret) ==
   IF con[text] >= TargetL
   THEN /\ g' = [res |-> text, ret |-> ret, done |-> TRUE, text |-> text, sched |-> sched]
   ELSE /\ g' = [text |-> text, sched |-> sched, j |-> 1, phase |-> "bsl", best |-> None,
                 bestCon |-> con[text], bestDe |-> 99, ret |-> ret, done |-> FALSE, res |-> None]
Oracle(memo, text, k) == IF <<text,k>> \in DOMAIN memo THEN {memo[<<text,k>>]}
                         ELSE {None} \cup {c \in Colour : de[text][c] <= k}
GStep ==
  /\ pc = "ingac" /\ ~g.done
  /\ LET k == g.sched[g.j] IN
     \/ /\ g.phase = "bsl"
        /\ \E r \in Oracle(memoB, g.text, k) :
             /\ memoB' = [x \in DOMAIN memoB \cup {<<g.text,k>>} |-> IF x = <<g.text,k>> THEN r ELSE memoB[x]]
             /\ IF r # None /\ r # g.text /\ con[r] >= TargetL
                THEN g' = [g EXCEPT !.done = TRUE, !.res = r]
                ELSE IF r # None /\ con[r] > g.bestCon
                     THEN g' = [g EXCEPT !.phase = "gd", !.best = r, !.bestCon = con[r], !.bestDe = de[g.text][r]]
                     ELSE g' = [g EXCEPT !.phase = "gd"]
        /\ UNCHANGED memoG
     \/ /\ g.phase = "gd"
        /\ \E r \in Oracle(memoG, g.text, k) :
             /\ memoG' = [x \in DOMAIN memoG \cup {<<g.text,k>>} |-> IF x = <<g.text,k>> THEN r ELSE memoG[x]]
             /\ IF r # None /\ con[r] >= TargetL
                THEN g' = [g EXCEPT !.done = TRUE, !.res = r]
                ELSE LET g1 == IF r # None /\ (con[r] > g.bestCon \/ (con[r] = g.bestCon /\ de[g.text][r] < g.bestDe))
                               THEN [g EXCEPT !.best = r, !.bestCon = con[r], !.bestDe = de[g.text][r]]
                               ELSE g
                     IN IF g1.best # None /\ g1.bestCon >= minL /\ k <= 1 /\ g.sched[Len(g.sched)] <= 3
                        THEN g' = [g1 EXCEPT !.done = TRUE, !.res = g1.best]
                        ELSE IF g.j = Len(g.sched)
                             THEN g' = [g1 EXCEPT !.done = TRUE, !.res = IF g1.best # None THEN g1.best ELSE g.text]
                             ELSE g' = [g1 EXCEPT !.j = g.j + 1, !.phase = "bsl"]
        /\ UNCHANGED memoB
  /\ UNCHANGED <<sPrem,phaseNo,mode,minL,con,de,pc,stack,cur,iter,recRes,recOk,aRes,aOk,bRes,bOk,result,success,chain>>

GReturn == /\ pc = "ingac" /\ g.done
           /\ pc' = g.ret
           /\ chain' = <<g.text, g.sched[Len(g.sched)], g.res>>
           /\ UNCHANGED <<sPrem,phaseNo,mode,minL,con,de,memoB,memoG,stack,cur,iter,recRes,recOk,aRes,aOk,bRes,bOk,g,result,success>>

Finish(r, ok) == /\ result' = r /\ success' = ok /\ pc' = "done"
\* ---------- strategies ----------
Dispatch == /\ pc = "dispatch"
            /\ IF mode = 0 THEN /\ StartG(0, SchedDefault, "strict_ret") /\ pc' = "ingac"
                               /\ UNCHANGED <<cur,iter>>
               ELSE /\ pc' = "rec_loop" /\ cur' = 0 /\ iter' = 0 /\ UNCHANGED g
            /\ UNCHANGED <<sPrem,phaseNo,mode,minL,con,de,memoB,memoG,stack,recRes,recOk,aRes,aOk,bRes,bOk,result,success,chain>>
StrictRet == /\ pc = "strict_ret"
             /\ Finish(g.res, con[g.res] >= minL)
             /\ UNCHANGED <<sPrem,phaseNo,mode,minL,con,de,memoB,memoG,stack,cur,iter,recRes,recOk,aRes,aOk,bRes,bOk,g,chain>>
RecDone(r, ok) == IF mode = 1 THEN Finish(r, ok) /\ UNCHANGED <<recRes,recOk,cur,iter,g>>
                  ELSE IF ok THEN Finish(r, TRUE) /\ UNCHANGED <<recRes,recOk,cur,iter,g>>
                  ELSE /\ recRes' = r /\ recOk' = FALSE /\ pc' = "a_loop" /\ cur' = 0 /\ iter' = 0
                       /\ UNCHANGED <<result,success,g>>
RecLoop == /\ pc = "rec_loop"
           /\ IF iter >= MaxIter1 THEN RecDone(cur, FALSE)
              ELSE IF con[cur] >= minL THEN RecDone(cur, TRUE)
              ELSE /\ StartG(cur, SchedStep, "rec_ret") /\ pc' = "ingac"
                   /\ UNCHANGED <<cur,iter,recRes,recOk,result,success>>
           /\ UNCHANGED <<sPrem,phaseNo,mode,minL,con,de,memoB,memoG,stack,aRes,aOk,bRes,bOk,chain>>
RecRet == /\ pc = "rec_ret"
          /\ IF g.res = cur THEN RecDone(cur, con[cur] >= minL)
             ELSE IF con[g.res] >= minL THEN RecDone(g.res, TRUE)
             ELSE /\ cur' = g.res /\ iter' = iter + 1 /\ pc' = "rec_loop" /\ UNCHANGED <<recRes,recOk,result,success,g>>
          /\ UNCHANGED <<sPrem,phaseNo,mode,minL,con,de,memoB,memoG,stack,aRes,aOk,bRes,bOk,chain>>
ALoop == /\ pc = "a_loop"
         /\ IF iter >= MaxIter2 THEN /\ aRes' = cur /\ aOk' = FALSE /\ pc' = "b_start" /\ UNCHANGED g
            ELSE IF con[cur] >= minL THEN /\ aRes' = cur /\ aOk' = TRUE /\ pc' = "b_start" /\ UNCHANGED g
            ELSE /\ StartG(cur, SchedStep, "a_ret") /\ pc' = "ingac" /\ UNCHANGED <<aRes,aOk>>
         /\ UNCHANGED <<sPrem,phaseNo,mode,minL,con,de,memoB,memoG,stack,cur,iter,recRes,recOk,bRes,bOk,result,success,chain>>
ARet == /\ pc = "a_ret"
        /\ IF g.res = cur THEN /\ aRes' = cur /\ aOk' = (con[cur] >= minL) /\ pc' = "b_start" /\ UNCHANGED <<cur,iter>>
           ELSE IF con[g.res] >= minL THEN /\ aRes' = g.res /\ aOk' = TRUE /\ pc' = "b_start" /\ UNCHANGED <<cur,iter>>
           ELSE /\ cur' = g.res /\ iter' = iter + 1 /\ pc' = "a_loop" /\ UNCHANGED <<aRes,aOk>>
        /\ UNCHANGED <<sPrem,phaseNo,mode,minL,con,de,memoB,memoG,stack,recRes,recOk,bRes,bOk,g,result,success,chain>>
BStart == /\ pc = "b_start" /\ StartG(0, SchedRelaxed, "b_ret") /\ pc' = "ingac"
          /\ UNCHANGED <<sPrem,phaseNo,mode,minL,con,de,memoB,memoG,stack,cur,iter,recRes,recOk,aRes,aOk,bRes,bOk,result,success,chain>>
BRet == /\ pc = "b_ret"
        /\ LET bok == con[g.res] >= minL IN
           IF aOk /\ bok THEN (IF de[0][aRes] <= de[0][g.res] THEN Finish(aRes, TRUE) ELSE Finish(g.res, TRUE))
           ELSE IF aOk THEN Finish(aRes, TRUE)
           ELSE IF bok THEN Finish(g.res, TRUE)
           ELSE Finish(recRes, FALSE)
        /\ UNCHANGED <<sPrem,phaseNo,mode,minL,con,de,memoB,memoG,stack,cur,iter,recRes,recOk,aRes,aOk,bRes,bOk,g,chain>>
Again == /\ pc = "done" /\ phaseNo = 1
         /\ phaseNo' = 2 /\ sPrem' = success /\ minL' = 1
         /\ pc' = "dispatch" /\ cur' = 0 /\ iter' = 0 /\ g' = <<>> /\ result' = None /\ success' = FALSE /\ chain' = <<>>
         /\ UNCHANGED <<mode,con,de,memoB,memoG,stack,recRes,recOk,aRes,aOk,bRes,bOk>>
Next == Again \/ GStep \/ GReturn \/ Dispatch \/ StrictRet \/ RecLoop \/ RecRet \/ ALoop \/ ARet \/ BStart \/ BRet
Spec == Init /\ [][Next]_vars
\* ---------- properties ----------
Done == pc = "done"
C01_FlagExact == Done => FlagExactP(success, con[result] >= minL)
C02_NoHarm    == Done => NoHarmP(con[result] >= con[0])
C04_StrictCap == Done => StrictCapP(mode, de[0][result] <= 3)
C04_Steps     == chain # <<>> => StepBoundedP(chain[3] = chain[1], de[chain[1]][chain[3]] <= chain[2])
C16b == (Done /\ phaseNo = 2) => OrdinaryCoversPremiumP(sPrem, success)
====
