---- MODULE TrWcag ----
(***************************************************************************)
(* C05: observations of the implementation's luminance / ratio / level /   *)
(* label functions, judged against the WCAG definition in Wcag.tla.        *)
(* One recorded observation per state.                                     *)
(***************************************************************************)
EXTENDS Wcag, TraceKit

VARIABLES tid, i, fails, incon, nt
vars == <<tid, i, fails, incon, nt>>

Black == <<0, 0, 0>>
White == <<255, 255, 255>>

Init == /\ tid \in 1..NTraces /\ i = 1 /\ fails = {} /\ incon = {} /\ nt = 0
Ev == Traces[tid][i]

\* clauses that are false for one observation
LumFails(e) ==
  IF Abs(e.l8 - Lum(e.c)) <= 3 THEN {} ELSE {"Lum"}

RatioFails(e) ==
  LET r == Ratio6(e.a, e.b) IN
  (IF e.ab6 = e.ba6 THEN {} ELSE {"RatioSymmetric"})
  \cup (IF Abs(e.ab6 - r) <= Ratio6Err + 1 THEN {} ELSE {"Ratio"})
  \cup (IF e.ab6 >= 1000000 /\ e.ab6 <= 21000000 THEN {} ELSE {"RatioRange"})
  \cup (IF e.a = e.b => e.ab6 = 1000000 THEN {} ELSE {"RatioDiagonal"})
  \cup (IF e.ab6 >= 21000000 => {e.a, e.b} = {Black, White} THEN {} ELSE {"Ratio21"})
  \cup (IF {e.a, e.b} = {Black, White} => e.ab6 = 21000000 THEN {} ELSE {"Ratio21"})
  \* nearly equal luminances (different colours): ratio - 1 = dL / (L_lo + 0.05), resolved to 3 millionths (table error 0.6 + two floors)
  \cup (LET d == LHi(e.a, e.b) - LLo(e.a, e.b) IN
        IF d <= 2000 /\ Abs((e.ab6 - 1000000) - (d * 1000000) \div (LLo(e.a, e.b) + Flare)) > 3 THEN {"RatioNearOne"} ELSE {})

LevelFails(e) ==
  IF e.lvl = PointLevel(e.pt, e.large) THEN {} ELSE {"LevelThreshold"}

PairFails(e) ==
  LET lv == Level(e.a, e.b, e.large) IN
  IF lv = "CLOSE" THEN {}
  ELSE (IF e.lvl = lv THEN {} ELSE {"PairLevel"})
       \cup (IF e.readable = Label(lv) THEN {} ELSE {"PairLabel"})
PairIncon(e) == IF Level(e.a, e.b, e.large) = "CLOSE" THEN {"PairLevel"} ELSE {}

BulkFails(e) ==
  LET lv == Level(e.c, e.b, e.large) IN
  IF lv = "CLOSE" THEN {} ELSE (IF e.status = LowerLabel(lv) THEN {} ELSE {"BulkStatus"})
BulkIncon(e) == IF Level(e.c, e.b, e.large) = "CLOSE" THEN {"BulkStatus"} ELSE {}

Observe ==
  /\ i <= Len(Traces[tid])
  /\ LET e == Ev IN
     /\ fails' = fails \cup
          (CASE e.k = "lum" -> LumFails(e)
             [] e.k = "ratio" -> RatioFails(e)
             [] e.k = "level" -> LevelFails(e)
             [] e.k = "pair" -> PairFails(e)
             [] e.k = "bulk" -> BulkFails(e)
             [] OTHER -> {"UnknownEvent"})
     /\ incon' = incon \cup
          (CASE e.k = "pair" -> PairIncon(e)
             [] e.k = "bulk" -> BulkIncon(e)
             [] OTHER -> {})
  /\ nt' = nt + 1
  /\ i' = i + 1 /\ UNCHANGED tid

Finish ==
  /\ i = Len(Traces[tid]) + 1
  /\ KitFinish(tid, fails, incon)
  /\ KitCount("observations", nt)
  /\ i' = i + 1 /\ UNCHANGED <<tid, fails, incon, nt>>

Next == Observe \/ Finish
Spec == Init /\ [][Next]_vars
====
