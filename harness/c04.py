"""C04 - change is bounded.  API part (mode 0 cap, chains in modes 1/2) through pairchecks / TrPair.tla;
direct calls of the three documented search routines through TrSearch.tla."""
import os, sys, random
sys.path.insert(0, os.path.dirname(os.path.abspath(__file__)))
import vlib, refs, pairs, pairchecks


def _call(job):
    vlib.use_repo()
    import importlib
    opt = importlib.import_module("cm_colors.core.optimisation")
    fn, text, bg, tol, target, large = job[:6]
    extra_kw = job[6] if len(job) > 6 else {}
    f = getattr(opt, {"bsl": "binary_search_lightness", "gd": "gradient_descent_oklch", "gac": "generate_accessible_color"}[fn], None)
    f = getattr(f, "__wrapped__", f)
    if f is None:
        return None
    ev = {"fn": fn, "in": list(text), "bg": list(bg), "cap4": 0, "out": [], "none": False, "outValid": False, "de4": -1,
          "raised": "", "args": repr((tol, target, large) + ((extra_kw,) if extra_kw else ()))}
    try:
        if fn == "gac":
            cap = max(tol) if tol else 0.0
            # (the schedule as a list or - the same numbers - as a tuple)
            out = f(tuple(text), tuple(bg), large, target, min(target, 3.0 if large else 4.5), list(tol) if (text[0] + bg[1]) % 3 else tuple(tol))
        else:
            cap = tol
            out = f(tuple(text), tuple(bg), tol, target, large, **extra_kw)
    except Exception as ex:
        ev["raised"] = type(ex).__name__
        return ev
    ev["cap4"] = int(round(cap * 10000))
    if out is None:
        ev["none"] = True
    else:
        ok = pairs.is_rgb_ints(out)
        ev["outValid"] = ok
        if ok:
            ev["out"] = list(out)
            ev["de4"] = refs.de4(text, out)
    return ev


def _call_child(jobs, flags):
    """the direct calls again in a child interpreter started with the given flags (chunks in parallel)"""
    import subprocess, json, concurrent.futures
    if not jobs:
        return []
    env = dict(os.environ)
    env["PYTHONPATH"] = os.path.join(vlib.REPO, "src") + os.pathsep + os.path.dirname(os.path.abspath(__file__))
    code = ("import sys, json; sys.path.insert(0, %r); import c04; "
            "jobs = json.loads(sys.stdin.read()); print(json.dumps([c04._call(tuple(j)) for j in jobs]))" % os.path.dirname(os.path.abspath(__file__)))
    size = max(1, (len(jobs) + vlib.NCPU - 1) // vlib.NCPU)
    chunks = [jobs[i:i + size] for i in range(0, len(jobs), size)]

    def one(ch):
        p = subprocess.run([sys.executable] + list(flags) + ["-c", code], input=json.dumps([list(j) for j in ch]), text=True, capture_output=True,
                           env=env, timeout=1800)
        if p.returncode != 0:
            raise vlib.MachineryError("child interpreter for direct calls failed: " + p.stderr[-800:])
        return json.loads(p.stdout.strip().splitlines()[-1])
    with concurrent.futures.ThreadPoolExecutor(max_workers=len(chunks)) as ex:
        res = list(ex.map(one, chunks))
    return [dict(e, args=e["args"] + " [python " + " ".join(flags) + "]") for ch in res for e in ch if e is not None]


def direct(rep, t, rnd):
    n = 700 if t == "quick" else 12000
    jobs = []
    for k in range(n):
        kind = rnd.random()
        if kind < 0.2:
            # saturated text (a channel near 0): the descent routine jumps to a gamut corner from such colours
            text, bg = pairs.saturated(rnd), pairs.rand_colour(rnd)
        elif kind < 0.5:
            text, bg = pairs.near_threshold(rnd, rnd.choice((3.0, 4.5, 7.0)), (0.0, 0.4))
        elif kind < 0.75:
            text, bg = pairs.near_background(rnd)
        else:
            text, bg = pairs.rand_colour(rnd), pairs.rand_colour(rnd)
        target = rnd.choice([1.5, 3.0, 4.5, 7.0, 10.0, 21.0, round(rnd.uniform(1.5, 21), 2)])
        large = bool(rnd.getrandbits(1))
        fn = ("bsl", "gd", "gac")[k % 3]
        if fn == "gac":
            m = rnd.choice([1, 2, 3, 5])
            sched = [round(rnd.choice([rnd.uniform(0.05, 1.0), rnd.uniform(0.1, 6), rnd.uniform(1, 40)]), 3) for _ in range(m)]
            if rnd.random() < 0.5:
                sched.sort()
            tol = sched
        else:
            tol = round(rnd.choice([rnd.uniform(0.05, 1.0), rnd.uniform(0.1, 6.0), rnd.uniform(1.0, 40.0)]), 3)
        # boundary tolerances: exactly zero (int and float), and schedules made of zeros - the routine may then only
        # return nothing or its input
        if k % 12 == 5:
            tol = [rnd.choice([0, 0.0])] * rnd.choice([1, 2]) if fn == "gac" else rnd.choice([0, 0.0])
        elif k % 12 == 11 and fn == "gac":
            tol = [0.0, round(rnd.uniform(0.05, 0.6), 3)]
        jobs.append((fn, text, bg, tol, target, large))
    # the descent routine only leaves its starting point from rare colours (a channel on an 8-bit rounding edge next to the
    # gamut boundary): a few thousand cheap probing calls on saturated colours find the ones where it moves at all
    for k in range(2500 if t == "quick" else 40000):
        text, bg = pairs.saturated(rnd), pairs.rand_colour(rnd)
        jb = ("gd", text, bg, round(rnd.uniform(0.5, 40.0), 3), rnd.choice([3.0, 4.5, 7.0, 10.0, 21.0]), bool(k & 1))
        if k % 3 == 0:
            jb = jb + ({"max_iter": rnd.choice([0, 1, 1, 2, 3, 5, 200])},)       # the documented iteration budget of the descent
        jobs.append(jb)
    # the multi-phase routine on colours next to a gamut corner (cyan, yellow, ...), where its second phase - the descent - is
    # the one that moves: short schedules, so that a step which is not measured from the ORIGINAL colour shows
    for k in range(6000 if t == "quick" else 150000):
        text = pairs.cube_corner(rnd)
        bg = pairs.rand_colour(rnd)
        sched = rnd.choice([[3.0], [2.5, 3.0], [1.0, 2.0, 3.0], [5.0], [0.8, 1.6, 2.4]])
        jobs.append(("gac", text, bg, sched, rnd.choice([3.0, 4.5, 7.0]), bool(k & 1)))
    evs0 = vlib.pool_map(_call, jobs, chunksize=16)
    evs = [e for i_, e in enumerate(evs0) if e is not None and (i_ < n or e.get("out") and e["out"] != e["in"] or i_ % 10 == 0)]
    # follow-up calls: wherever a routine moved the colour by d, it is asked again with a tolerance a little BELOW d
    # (d - 0.003, d - 0.03, d - 0.12): the place it wants to go is now just out of bounds, so it has to return something
    # else (or nothing / its input) - a bound enforced only softly (a penalty, a cheaper metric) shows exactly here
    follow = []
    for job, e in zip(jobs, evs0):
        if e is None or not e.get("out") or e["out"] == e["in"] or e["de4"] < 2000:
            continue
        fn, text, bg, tol, target, large = job[:6]
        for dlt in (0.003, 0.03, 0.12):
            nt = round(e["de4"] / 10000.0 - dlt, 4)
            if nt <= 0.05:
                continue
            if fn == "gac":
                sched = sorted(set([round(x, 4) for x in tol if x < nt] + [nt]))
                follow.append((fn, text, bg, sched, target, large))
            else:
                follow.append((fn, text, bg, nt, target, large))
    if len(follow) > (900 if t == "quick" else 20000):
        follow = rnd.sample(follow, 900 if t == "quick" else 20000)
    evs += [e for e in vlib.pool_map(_call, follow, chunksize=4) if e is not None]
    # the same routines in a child interpreter started with -O (assert statements are stripped there): every call that moved
    # the colour, its follow-ups, and a sample of the rest
    moved = [j for j, e in zip(jobs, evs0) if e is not None and e.get("out") and e["out"] != e["in"]]
    ojobs = moved[: (400 if t == "quick" else 6000)] + follow[: (300 if t == "quick" else 5000)] + rnd.sample(jobs, min(len(jobs), 300 if t == "quick" else 4000))
    oevs = _call_child(ojobs, ["-O"])
    evs += oevs
    rep.extra["direct_calls_in_dash_O_interpreter"] = len(oevs)
    rep.extra["direct_calls"] = len(evs)
    rep.extra["direct_follow_up_calls_tolerance_just_below_previous_move"] = len(follow)
    if not evs:
        rep.extra["direct_calls_skipped"] = "search routines not found under their documented names"
        return
    traces = [evs[i:i + 16] for i in range(0, len(evs), 16)]
    agg = vlib.validate_traces("TrSearch", traces)
    rep.add_traces(agg, len(traces))
    rep.evaluations += len(evs)
    rep.sample({"direct_call": evs[0]})
    rep.inconclusive += sum(1 for b in agg["bad"] if b["incon"])
    hits, more = vlib.pinpoint("TrSearch", traces, agg)
    for tid, j, fl in hits:
        e = traces[tid][j]
        rep.violation("/".join(fl), {"call": e, "clauses": fl,
                      "reproduce": f"cm_colors.core.optimisation.{e['fn']}: text={e['in']} bg={e['bg']} (tolerance/schedule, target, large)={e['args']}"})
    if more:
        print(f"NOTE: {more} further failing batches not itemised")


def cli_strict(rep, t, rnd):
    """strict mode through the command: --mode 0 runs on generated stylesheets (rules nested in at-rules included);
    TrCli.tla's C04_CliStrictCap judges every adjusted rule"""
    import clichecks
    jobs = []
    for k in range(40 if t == "quick" else 800):
        kw = dict(nrules=rnd.choice([3, 6, 10]), depth=rnd.choice([1, 2, 3]), f_known=0.0, carry=False, nvars=rnd.choice([0, 2]))
        jobs.append((rnd.randrange(1 << 30), (0, bool(k & 1), rnd.choice([None, "#000000", "white"])), kw))
    res = vlib.pool_map(clichecks.one_sheet, jobs, chunksize=2)
    behs = [b for b, _ in res]
    agg = vlib.validate_traces("TrCli", behs, min_per_shard=10)
    rep.add_traces(agg, len(behs))
    ncards = sum(1 for b in behs for e in b[1:] if e["cat"] == "card")
    rep.evaluations += ncards
    rep.extra["cli_mode0_adjusted_rules"] = ncards
    for bad in agg["bad"]:
        mine = [f for f in bad["fails"] if f.startswith("C04_")]
        if mine:
            info = res[bad["tid"]][1]
            rep.violation("/".join(mine), {"stylesheet": info["css"], "args": info["args"], "rule_events": behs[bad["tid"]][1:],
                          "reproduce": "write `stylesheet` to s.css and run: cm-colors s.css " + " ".join(info["args"])})


def both(rep, t, rnd):
    direct(rep, t, rnd)
    cli_strict(rep, t, rnd)


if __name__ == "__main__":
    vlib.main_wrapper(lambda: pairchecks.run("C04", extra=both))
