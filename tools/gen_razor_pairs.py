#!/usr/bin/env python3
"""Generate harness/razor_pairs.json: 8-bit colour pairs whose WCAG contrast ratio lies within 3e-7 of a label
threshold (3.0, 4.5, 7.0), on either side - the inputs on which a luminance computed in single precision, a
rounded table or a '>' instead of '>=' would show.  About one random pair in 10^7 is this close, so they are found
with the sorted list of all 2^24 luminances (numpy, tooling interpreter python3-vt) and stored as INPUT DATA only:
which side of the threshold a pair is on is decided by TLC with Wcag.tla's CmpRatioFine (units of 1e-14), never here.
Deterministic (seeded).  Usage: python3-vt tools/gen_razor_pairs.py"""
import json, os, random
import numpy as np

W = 3e-7
PER_CLASS = 260


def main():
    v = np.arange(256) / 255.0
    lin = np.where(v <= 0.04045, v / 12.92, ((v + 0.055) / 1.055) ** 2.4)
    idx = np.arange(1 << 24, dtype=np.uint32)
    lum = 0.2126 * lin[idx >> 16] + 0.7152 * lin[(idx >> 8) & 255] + 0.0722 * lin[idx & 255]
    order = np.argsort(lum, kind="stable")
    slum = lum[order]
    rnd = random.Random(20261003)
    out = {}
    for t in (3.0, 4.5, 7.0):
        for side in ("above", "below"):
            for role in ("dark", "light"):
                got = []
                tries = 0
                while len(got) < PER_CLASS and tries < 400000:
                    tries += 1
                    x = rnd.randrange(1 << 24)
                    # half of the fixed colours are greys / saturated primaries mixes to vary the kind of colour
                    if tries % 4 == 0:
                        g = rnd.randrange(256)
                        x = (g << 16) | (g << 8) | g
                    lx = lum[x]
                    lo_r, hi_r = (t, t + W) if side == "above" else (t - W, t)
                    if role == "dark":      # x is the darker colour; partner luminance from the ratio window
                        a, b = lo_r * (lx + 0.05) - 0.05, hi_r * (lx + 0.05) - 0.05
                    else:                   # x is the lighter colour
                        a, b = (lx + 0.05) / hi_r - 0.05, (lx + 0.05) / lo_r - 0.05
                    if a < 0 or b > 1:
                        continue
                    i, j = np.searchsorted(slum, a, "left"), np.searchsorted(slum, b, "right")
                    if j > i:
                        p = int(order[rnd.randrange(i, j)])
                        r = (max(lum[p], lx) + 0.05) / (min(lum[p], lx) + 0.05)
                        if abs(r - t) <= W and (r >= t) == (side == "above"):
                            cx = [x >> 16, (x >> 8) & 255, x & 255]
                            cp = [p >> 16, (p >> 8) & 255, p & 255]
                            got.append([cx, cp])
                out[f"{t}_{side}_{role}"] = got
    # ultra-razor pairs: within 1e-9 of a threshold (a constant truncated to ten digits moves a ratio by about 1e-10 .. 1e-9).
    # Vectorised: 4 million random colours as the darker / lighter side, nearest partners by luminance.
    nprng = np.random.default_rng(20261003)
    xs = nprng.integers(0, 1 << 24, size=4_000_000, dtype=np.int64)
    lx = lum[xs]
    for t in (3.0, 4.5, 7.0):
        for role in ("dark", "light"):
            tgt = t * (lx + 0.05) - 0.05 if role == "dark" else (lx + 0.05) / t - 0.05
            ok = (tgt >= 0) & (tgt <= 1)
            pos = np.clip(np.searchsorted(slum, tgt), 1, len(slum) - 1)
            for off in (-1, 0):
                cand = order[pos + off]
                lc = lum[cand]
                r = (np.maximum(lc, lx) + 0.05) / (np.minimum(lc, lx) + 0.05)
                for side in ("above", "below"):
                    sel = ok & (np.abs(r - t) <= 1e-9) & ((r >= t) == (side == "above"))
                    key = f"{t}_{side}_{role}"
                    have = {(tuple(a), tuple(b)) for a, b in out[key]}
                    add = []
                    for j in np.nonzero(sel)[0][:400]:
                        x, p = int(xs[j]), int(cand[j])
                        pr = ((x >> 16, (x >> 8) & 255, x & 255), (p >> 16, (p >> 8) & 255, p & 255))
                        if pr not in have and len(add) < 90:
                            have.add(pr)
                            add.append([list(pr[0]), list(pr[1])])
                    out.setdefault("ultra_" + key, [])
                    out["ultra_" + key] += add
    path = os.path.join(os.path.dirname(os.path.abspath(__file__)), "..", "harness", "razor_pairs.json")
    with open(path, "w") as f:
        json.dump(out, f, separators=(",", ":"))
    print({k: len(v_) for k, v_ in out.items()})


if __name__ == "__main__":
    main()
