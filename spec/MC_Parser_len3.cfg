SPECIFICATION GenSpec
CONSTRAINT UpTo3
CHECK_DEADLOCK FALSE
