\* regression: the bookkeeping before commit "fix: lightness search keeps a candidate that meets the
\* target" - TLC must report FindsWitness violated
SPECIFICATION Spec
CONSTANTS N = 8
          K = 5
          AwayDirection = TRUE
          TrackPassing = FALSE
INVARIANT Contract
INVARIANT FindsWitness
CHECK_DEADLOCK FALSE
