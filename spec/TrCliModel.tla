---- MODULE TrCliModel ----
(***************************************************************************)
(* Refinement-level trace validation of the CLI's rewrite pass (never a    *)
(* property verdict): does Cli.tla - the as-is algorithm that was model    *)
(* checked - predict what the real command did on this stylesheet?         *)
(*                                                                         *)
(* A trace is ONE run on one stylesheet, abstracted by the harness:        *)
(*   vdef  : custom property -> <<"lit", colour id>> | <<"var", name>>     *)
(*   rules : coloured and uncoloured rules in document order               *)
(*           [root, col = none | lit c | var v | varfb v e, bg = "b<n>"]   *)
(*           (e = the fallback, itself lit c | var w | varfb w e')         *)
(*   tab   : the oracle table taken from the Python API of the same tree:  *)
(*           (colour id, background) -> invalid | fail | pass | tuned c'   *)
(*           closed under the colours the run can produce                  *)
(*   obs   : what the command reported and wrote: counters, cards          *)
(*           (rule index, colour id), listed rule indices, effective       *)
(*           colour id of every coloured rule in the written file          *)
(* Init loads them into Cli.tla's variables; the steps are Cli.tla's own   *)
(* Process and Post actions; at Done the model's state is compared with    *)
(* the observation.  Mismatch = DRIFT (the model no longer describes the   *)
(* code).                                                                  *)
(***************************************************************************)
EXTENDS Cli, TraceKit

VARIABLES tid, finished
tvars == <<vars, tid, finished>>
T == Traces[tid]

Tab(t) == LET keys == {<<t.tab[j][1], t.tab[j][2]>> : j \in 1..Len(t.tab)}
          IN [p \in keys |-> LET j == CHOOSE x \in 1..Len(t.tab) : <<t.tab[x][1], t.tab[x][2]>> = p
                             IN t.tab[j][3]]
TInit ==
  /\ tid \in 1..NTraces
  /\ LET t == Traces[tid] IN
     /\ tab = Tab(t) /\ vdef = t.vdef /\ rules = t.rules /\ sheet0 = <<t.vdef, t.rules>>
  /\ phase = "run" /\ i = 1 /\ acc = 0 /\ tuned = 0 /\ failed = 0 /\ cards = {} /\ failedSel = {} /\ rootDirty = {}
  /\ hackAt = Traces[tid].hackAt /\ aborted = FALSE      \* (position of the first rule with a star hack next to its colour, or 0)
  /\ finished = FALSE

\* the oracle table is filled lazily by the harness: when the next step needs an entry that is not there yet, the run
\* stops and names it ("M_<colour>_<background>"); the harness asks the API and re-submits the run
Upcoming == IF phase = "run" /\ i <= Len(rules) /\ rules[i].col # NoneE
            THEN <<Res(rules[i].col, vdef, {}), rules[i].bg>> ELSE <<>>
MissingNow == Upcoming # <<>> /\ Upcoming[1] >= 0 /\ Upcoming \notin DOMAIN tab
NeedMore == /\ ~finished /\ MissingNow
            /\ KitFinish(tid, {}, {"M_" \o ToString(Upcoming[1]) \o "_" \o Upcoming[2]})
            /\ finished' = TRUE /\ UNCHANGED <<vars, tid>>
TStep == ~finished /\ ~MissingNow /\ (Process \/ Post) /\ UNCHANGED <<tid, finished>>

ToSet(s) == {s[j] : j \in 1..Len(s)}
Mismatch ==
  LET o == T.obs
      predCards == {<<c[1], c[2]>> : c \in cards}
      obsCards == {<<o.cards[j][1], o.cards[j][2]>> : j \in 1..Len(o.cards)}
      colored == {k \in 1..Len(rules) : sheet0[2][k].col # NoneE}
  IN (IF acc = o.acc /\ tuned = o.tuned /\ failed = o.failed THEN {} ELSE {"D_CliCounters"})
     \cup (IF predCards = obsCards THEN {} ELSE {"D_CliCards"})
     \cup (IF failedSel = ToSet(o.listed) THEN {} ELSE {"D_CliListed"})
     \cup (IF \A k \in colored : o.eff[k] = -2 \/ Eff(k) = o.eff[k] THEN {} ELSE {"D_CliWritten"})
     \cup (IF aborted = ~o.written THEN {} ELSE {"D_CliAborted"})       \* the model's "no output" = no output file
Accept ==
  /\ ~finished /\ Done
  /\ KitFinish(tid, {}, Mismatch)
  /\ finished' = TRUE /\ UNCHANGED <<vars, tid>>
TNext == TStep \/ Accept \/ NeedMore
TSpec == TInit /\ [][TNext]_tvars
====
