#!/usr/bin/env python3
"""Check harness/razor_pairs.json against exact arithmetic (the big-integer linearisation of tools/gen_wcag_tables.py at
1e-20): every pair listed under "<t>_<side>_<role>" has a WCAG ratio within 3.2e-7 of t, on the stated side.  The catalogue
is only INPUT data of the checks (TLC decides each pair again with Wcag.tla), so a wrong entry could not cause an alarm -
but a catalogue that drifted away from the thresholds would silently stop exercising them."""
import json, os, sys
from fractions import Fraction
sys.path.insert(0, os.path.dirname(os.path.abspath(__file__)))
import gen_wcag_tables as g

S = g.S
LIN = [g.lin_scaled(v) for v in range(256)]


def lum(c):
    return Fraction(2126 * LIN[c[0]] + 7152 * LIN[c[1]] + 722 * LIN[c[2]], 10000 * S)


def main():
    here = os.path.dirname(os.path.abspath(__file__))
    cat = json.load(open(os.path.join(here, "..", "harness", "razor_pairs.json")))
    n = 0
    for key, prs in cat.items():
        ultra = key.startswith("ultra_")
        t, side, _role = key.replace("ultra_", "").split("_")
        t = Fraction(t)
        for a, b in prs:
            la, lb = lum(a), lum(b)
            r = (max(la, lb) + Fraction(1, 20)) / (min(la, lb) + Fraction(1, 20))
            if abs(r - t) > (Fraction(12, 10 ** 10) if ultra else Fraction(32, 10 ** 8)) or ((r >= t) != (side == "above") and not ultra):
                print("razor catalogue entry off:", key, a, b, float(r))
                sys.exit(1)
            n += 1
    # harness/end_pairs.json: colours within 5e-5 of a threshold against pure white / black (tools/gen_end_pairs.py)
    ends = json.load(open(os.path.join(here, "..", "harness", "end_pairs.json")))
    m = 0
    for key, cols in ends.items():
        side, t = key.split("_")
        t = Fraction(t)
        other = lum((255, 255, 255)) if side == "white" else lum((0, 0, 0))
        for c in cols:
            lc = lum(c)
            r = (max(lc, other) + Fraction(1, 20)) / (min(lc, other) + Fraction(1, 20))
            if abs(r - t) > Fraction(6, 10 ** 5):
                print("end-pair catalogue entry off:", key, c, float(r))
                sys.exit(1)
            m += 1
    print(f"razor catalogue ok ({n} pairs); end-pair catalogue ok ({m} colours)")


if __name__ == "__main__":
    main()
