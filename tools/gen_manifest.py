#!/usr/bin/env python3
"""Regenerate /verif/MANIFEST.json from the table below (kept in one place so it stays valid)."""
import json, os, sys

HERE = os.path.dirname(os.path.abspath(__file__))
ROOT = os.path.dirname(HERE)

MC = "model_checking"

CHECKS = {
    "C01": dict(
        technique="TLA+ trace validation (TrPair.tla: FlagExactP over Wcag.tla tables) of recorded ColorPair behaviours + TLC model checking of Strat.tla",
        text="Design level: TLC checks FlagExact on Strat.tla for every contrast/dE oracle and memoised search result (3 colours, all minimum/target, modes 1->2->0). Code level: every recorded make_readable call (all spellings x modes x large x very_readable, threshold-concentrated) is one state of TrPair.tla; TLC evaluates success <=> Meets(CSS read-back, bg, Required(large,vr)) with the spec's own WCAG tables and requirement table.",
        note="Trusted: TLC; exact-integer WCAG table generator (pinned by ASSUMEs); harness CSS reader refs.css_parse (calibrated against CssColor.tla in C07); the parsed pair is the library's reading while it is an admissible reading of the given spelling - otherwise the CSS (or documented) meaning of the spelling replaces it. Ratios within the table uncertainty of a threshold are inconclusive, never violations.",
        ref="5 C01"),
    "C02": dict(
        technique="TLA+ trace validation (TrPair.tla: AlreadyOkP, NoHarmP) + TLC model checking of Strat.tla and Gac.tla",
        text="Design level: NoHarm/AlreadyOk on Strat.tla and NotWorse/AlreadyAtTarget on Gac.tla for every oracle. Code level: recorded behaviours incl. pairs a hair above/below each requirement and text = background; TLC judges 'meets => unchanged and success' and 'contrast not lower' with Wcag.tla.",
        note="Same trusted base as C01. 'Not lower' is judged by luminance on the same side of the background, otherwise by Ratio6 with a 40 millionths band (inconclusive inside).",
        ref="5 C02"),
    "C03": dict(
        technique="TLA+ trace validation (TrPair.tla: FindsWitnessP) on witness pairs + TLC model checking of Bsl.tla / BslAny.tla / Gac.tla",
        text="Design level: Bsl.tla (dyadic lightness search, all text/background/radius/target positions) satisfies FindsWitness and Contract in the as-is configuration; the two pre-repair configurations are kept as failing regressions. Code level: for pairs just below a requirement an independent scan of the text's OKLCH lightness line supplies a witness; TLC re-checks the witness' contrast with Wcag.tla and judges witness => success and dE <= 2.0 in modes 0,1,2.",
        note="Assumption: harness reference OKLab/CIEDE2000 (refs.py, self-checked on the 34 Sharma-Wu-Dalal pairs) defines the witness and dE (1e-4 units, 1e-3 guard band); marginal witnesses are skipped.",
        ref="5 C03"),
    "C04": dict(
        technique="TLA+ trace validation (TrPair.tla: StrictCapP, StepBoundedP, chain linkage; TrSearch.tla for direct calls) + TLC model checking of Bsl/BslAny/Gac/Strat + Apalache inductive invariant of Bsl for the real constants (ApaBsl.tla)",
        text="Design level: Contract of the lightness search under arbitrary oracles (BslAny), of the multi-phase search for 4 schedule shapes (Gac), StrictCap on Strat; the lightness-search contract also for N=255, K=20 by a one-step inductive invariant (Apalache). Code level: mode-0 results, every multi-phase-search call observed inside mode 1/2 runs (in/out/schedule via attribute wrapper in the harness process), and direct calls of the three documented routines with arbitrary tolerances/schedules (incl. follow-up calls with a tolerance just below the move a routine made), each judged by TLC.",
        note="Assumption: reference CIEDE2000 from refs.py, 1e-3 guard band (results within it are inconclusive). Chain sub-check is skipped (stated in evidence) if the wrapped attribute is absent.",
        ref="5 C04"),
    "C05": dict(
        technique="TLA+ definition (Wcag.tla, exact integer tables) + TLC trace validation of observed luminance/ratio/level/label values (TrWcag.tla, WcagLumAll.tla); thresholds decided to ~4e-12 of the ratio (CmpRatioFine)",
        text="Wcag.tla is the WCAG 2 definition in exact integer arithmetic; MC_Wcag checks its self-consistency on 4x65,536 pairs. Every observed luminance, ratio (both argument orders), level and label of the implementation is a state judged by TLC; thorough tier covers all 16,777,216 luminances and all 65,536 grey pairs.",
        note="Trusted: table generator (40 lines, integer bisection), floor(x*1e8)/floor(x*1e6) observation encoding.",
        ref="5 C05"),
    "C06": dict(
        technique="TLA+ trace validation (TrPair.tla: OutFormat table of CssColor.tla, read-back clauses) + TLC judging whole formatter planes (FmtGrid.tla)",
        text="CssColor.OutFormat is the documented format mapping. Code level: 13 spelling classes incl. case/whitespace variants x outcomes x modes, each Fix event judged by TLC: shape = OutFormat(spelling), CSS read-back = library read-back = judged colour. Exhaustive half: for red planes (thorough: all 2^24 colours) x 4 formats the formatted value is read back by both readers and TLC checks equality plane by plane.",
        note="Trusted: harness CSS reader (refs.css_parse, exact rationals, calibrated against CssColor.tla in C07); the judged colour is the result of the same call on int tuples.",
        ref="5 C06"),
    "C07": dict(
        technique="TLA+ definition of CSS Color 3 values (CssColor.tla, exact integers) + TLC judging observed parser results (TrCss.tla events, CssGrid.tla planes)",
        text="CssColor.tla/CssNamed.tla define hex, keywords, rgb ints/percentages, hsl (hue wrap, sectors, rounding as admissible sets), source-over compositing; MC_CssColor checks the definition's sanity. The harness renders abstract values into equivalent spellings; every observed parse is judged by TLC. Thorough: all integer hsl planes for hues -360..719 and all 2^24 six-digit hex strings.",
        note="Trusted: tinycss2.color3 keyword table as source of CssNamed.tla; the harness' rendering of abstract values into text.",
        ref="5 C07"),
    "C08": dict(
        technique="TLA+ trace validation of CLI runs (TrCli.tla over Wcag.tla; known-finding classes as input predicates) + TLC model checking of the as-is rewrite algorithm (Cli.tla)",
        text="Design level: Cli.tla (as-is algorithm: custom-property table updated in place, fallback form, :root/html post-pass; the two behaviours repaired in this round are switches whose old values TLC must reject) over all abstract stylesheets of <=2 (thorough 3) rules: Partition, CardMeetsTarget, FailedUnchanged, ReportedIsWritten modulo the input class F6; 15 named corner stylesheets (CliScenarios.tla) and TLC-simulated stylesheets are replayed into the command; TrCliModel.tla checks that Cli.tla predicts each real run (drift only). Code level: generated stylesheets (known abstract tree) run through the real command; stdout summary, report cards and the re-parsed *_cm.css are judged per rule by TLC: every rule in exactly one category, card colour = API result = written colour and meets the target, rules counted readable meet it in the written file, attention rules unchanged.",
        note="Trusted: tinycss2 as CSS tokenizer, html.parser for cards, the Python API of the same tree as reference (as the property states). Known finding F6 (known_findings.json; F4/F5 were repaired) is suppressed only for rules in its input class.",
        ref="5 C08"),
    "C09": dict(
        technique="TLA+ trace validation of CLI runs (TrCli.tla: SameExceptAdjusted over token-value structure, file-system clauses; TrBatch.tla for directory runs)",
        text="Input and output stylesheets are abstracted (tinycss2 token values, whitespace-insensitive, hash-consed) into flat item sequences with open/close markers; TLC checks equal structure except the value of the last color declaration of adjusted rules and of the custom properties they reference; plus inputs byte-identical (SHA-256), only <name>_cm.css and the report created, output parses. Inputs include *_cm.css-named files, carry-through constructs (@import/@charset/@font-face/@keyframes/@page/unknown at-rules, strings/urls with braces, escapes, !important, vendor hacks, empty rules, non-ASCII).",
        note="Trusted: tinycss2 tokenizer on both sides; escapes compare by decoded value.",
        ref="5 C09"),
    "C18": dict(
        technique="TLC model checking of CliBatch.tla (all trees x orders x two runs) + TLC-generated directory trees replayed into the real command + trace validation (TrBatch.tla)",
        text="Design level: every tree of <=3 files over 15 kinds (incl. 6 fault kinds, 2 write-fault kinds and *_cm.css), every traversal order, two runs: Isolation, SkipBad, NoCmInput, RerunStable; configurations with a shared custom-property table or kept *_cm.css inputs are rejected. Code level: TLC-enumerated trees are materialised (names/sub-directories permuted), the command is run twice on the directory and once per valid file alone; TLC judges byte-equality ids, reporting of bad files, absence of *_cm_cm.css, rerun stability.",
        note="Traversal order cannot be forced, only varied. Unreadable-by-permission files are not exercised (the sandbox runs as root).",
        ref="5 C18"),
    "C19": dict(
        technique="TLC model checking of the escaping discipline against an abstract HTML tokenizer (Report.tla) + TLC-generated strings replayed into both report generators + trace validation (TrReport.tla)",
        text="Design level: SafeP for every string of <=3 symbols over a 31-symbol alphabet (markup, references, compatibility characters, templating text, script end tags) in element-content and attribute-value context; escaping modes noquote/none/skipIfRef are rejected. Code level: each TLC string is placed in each of 5 user-controlled slots of generate_report and to_html_bulk; end-to-end routes (CLI selectors, file names, lenient colour strings via save_report); the written report is tokenised with html.parser and TLC judges structure = benign structure and slot text verbatim.",
        note="Trusted: html.parser as tokenizer. Level fields are library-computed, not user text.",
        ref="5 C19"),
    "C12": dict(
        technique="TLA+ API state machine (Api.tla: BulkLength/BulkIsMap/BulkInvalid) + TLC-generated inputs (BulkLists.tla) replayed into the code + trace validation (TrApi.tla)",
        text="TLC enumerates every list of <=3 entries over 8 entry kinds x 3 arities; each is bound to concrete colours; the recorded behaviour (single-pair calls on fresh objects, bulk, bulk with the other setting, reversed bulk, singles again) is validated against Api.tla; status = label of the returned colour by Wcag.tla.",
        note="Trusted: harness CSS reader for the status clause; WCAG tables.",
        ref="5 C12"),
    "C13": dict(
        technique="TLA+ trace validation (TrPair.tla Construct: source-over rule of CssColor.tla over the pair's own background; label by Wcag.tla)",
        text="Abstract (foreground, alpha in thousandths, background opaque or translucent) rendered in the three translucent spellings x many background spellings; TLC judges pair.text.rgb / pair.bg.rgb against the exact blend (1.5 allowance, alpha 0/1 end points), is_readable on the composite, and the C01/C02 predicates on following fixes.",
        note="Trusted: harness rendering of abstract values; WCAG tables.",
        ref="5 C13"),
    "C14": dict(
        technique="TLA+ API state machine (Api.tla: ConstructOk, ReadableOnInvalid, FixOnInvalid, BulkInvalid) + trace validation (TrApi.tla) of enumerated input shapes",
        text="Every sequence of <=3 (thorough 4) elements over 29 element classes as tuple and list, sampled longer ones, token strings over a near-miss alphabet and mutated CSS go through Color(...); pair-level histories (is_readable, make_readable x 3 modes, bulk with the bad entry between good ones) follow; TLC judges each recorded operation against the outcome algebra.",
        note="No numeric oracle. Design level: MC_Api (InvalidInert, NoRefusal).",
        ref="5 C14"),
    "C15": dict(
        technique="TLA+ API state machine with history variable memo (Api.tla: FixPure etc.) + TLC-generated histories (ApiHist.tla) replayed into the code + trace validation (TrApi.tla) merged with fresh-interpreter references and thread logs",
        text="TLC enumerates all API histories of depth <=3 (43k); sampled (quick) or broadly (thorough) bound to concrete pair pairs, executed in-process, merged with reference observations from fresh interpreter processes (three hash seeds, one of them started with -O) and validated: any result that contradicts an earlier observation of the same arguments is a violation; 4-thread workloads validated the same way.",
        note="Pre-emptive interleavings are sampled, not enumerated. Design level: MC_Api (MemoAgreesWithLib).",
        ref="5 C15"),
    "C17": dict(
        technique="TLA+ API state machine (Api.tla: Quiet, OnlyReport, FixPure ignoring show/save) + TLC-generated cases (QuietCases.tla) replayed into the code + trace validation (TrApi.tla)",
        text="TLC enumerates spelling x outcome x mode x very_readable x visibility (936 cases); each executed in a scratch directory with fd-level capture of stdout/stderr and directory diffs; TLC judges Quiet, OnlyReport, SameResult, never-raised for every operation incl. construction, bulk and package import.",
        note="Trusted: fd-level capture and directory listing in the harness.",
        ref="5 C17"),
    "C16": dict(
        technique="TLA+ trace validation (TrPair.tla: Mode2CoversMode1P, OrdinaryCoversPremiumP) + TLC model checking of Strat.tla and the product model Opt2.tla",
        text="Design level: Mode2CoversMode1 on Strat.tla; OrdinaryCoversPremium on the product run Opt2.tla (very_readable then ordinary on the same lazily chosen per-tolerance oracles, search modelled step by step). Code level: each recorded pair is run in all 3 modes x both settings in one process; TLC compares the runs pairwise.",
        note="No numeric oracle needed (equality of returned colours and flags). Generator biased to pairs needing several default-mode steps.",
        ref="5 C16"),
}

NOT_APPLICABLE = [
    {"property_id": "C10", "reason": "pure transcendental float accuracy (cube roots, atan2) of a stateless pipeline; TLC has no reals and 32-bit integers, so the specification cannot contain the definition - DESIGN.md section 6"},
    {"property_id": "C11", "reason": "pure transcendental float accuracy (CIE Lab, CIEDE2000: sqrt, sin, cos, exp, atan2, 7th powers); not expressible in a TLA+ specification - DESIGN.md section 6"},
]

PENDING = {}  # id -> reason, for properties whose check is not built yet


def main():
    checks = []
    for pid in sorted(CHECKS):
        c = CHECKS[pid]
        checks.append({
            "property_id": pid,
            "quick_cmd": f"./check {pid} --tier quick",
            "thorough_cmd": f"./check {pid} --tier thorough",
            "evidence_file": f"/verif/evidence/{pid}.json",
            "replay_cmd_template": f"./check {pid} --replay {{path}}",
            "engine": "tlc",
            "level_claimed": {"category": MC, "text": c["text"], "design_ref": "DESIGN.md section " + c["ref"]},
            "level_note": c["note"],
            "technique": c["technique"],
        })
    na = list(NOT_APPLICABLE) + [{"property_id": k, "reason": v} for k, v in sorted(PENDING.items())]
    man = {
        "version": 1,
        "setup_cmd": "./setup.sh",
        "hooks": {
            "guard": "CM_COLORS_VERIF",
            "enable": "no source hooks in /repo: ./check exports CM_COLORS_VERIF=1 and the harness wraps module attributes (e.g. cm_colors.core.optimisation.generate_accessible_color) in its own process",
            "baseline_off_cmd": "cd /repo && /venv/bin/python -m pytest -ra -q -p no:cacheprovider --timeout=900 --continue-on-collection-errors",
            "source_commits": [],
            "add_only": True,
        },
        "engines": [
            {"name": "tlc", "path": "/verif/spec", "serves_properties": sorted(CHECKS),
             "kind_free_text": "explicit TLA+ specification (spec/*.tla) checked with TLC: design-level model checking (MC_*.cfg) and batch trace validation of behaviours recorded from the real code (Tr*.tla via harness/vlib.py)"},
        ],
        "checks": checks,
        "notes": "Every verdict is produced by TLC evaluating predicates of the specification; the Python harness only drives the implementation and records observations. Exit 2 (never a VIOLATION line) for machinery failures. Known findings: /verif/known_findings.json.",
        "not_applicable": na,
    }
    with open(os.path.join(ROOT, "MANIFEST.json"), "w") as f:
        json.dump(man, f, indent=1)
    print("MANIFEST.json written:", len(checks), "checks;", len(na), "not applicable/pending")


if __name__ == "__main__":
    main()
