SPECIFICATION FairSpec
CONSTANTS NC = 3
          NL = 3
          MaxIter1 = 2
          MaxIter2 = 3
          StrictCap = 3
          StepCap = 2
          RelaxedCap = 4
          DeTop = 4
PROPERTY Terminates
CHECK_DEADLOCK FALSE
