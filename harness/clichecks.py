"""Shared driver of the single-stylesheet CLI checks C08 (what is reported is what was written; every rule accounted for)
and C09 (inputs untouched; the rest of the stylesheet preserved).  Trace spec: TrCli.tla; design level: Cli.tla."""
import os, sys, random, json, shutil, tempfile, re, time
sys.path.insert(0, os.path.dirname(os.path.abspath(__file__)))
import vlib, refs, pairs, clilib
import tinycss2

PREFIX = {"C08": ("C08_",), "C09": ("C09_",)}
KNOWN_DESC = {}


def rgb_of(text):
    r = refs.css_read_opaque(text) if isinstance(text, str) else None
    return list(r) if r else []


def one_sheet(job):
    """generate, run, observe one stylesheet -> (behaviour, info)"""
    seed, settings, gen_kw = job
    rnd = random.Random(seed)
    vlib.use_repo()
    from cm_colors import ColorPair, Color
    g = clilib.Gen(rnd, **gen_kw)
    nodes = g.sheet()
    css = clilib.render(nodes, rnd)
    mode, premium, default_bg = settings
    work = tempfile.mkdtemp(prefix="verif_cli_")
    cwd = tempfile.mkdtemp(prefix="verif_cwd_")
    try:
        name = rnd.choice(["s", "theme.min", "a b", "Ünï", "theme_cm", "x_cm"]) + ".css"
        sub = rnd.choice(["", "sub"])
        d = os.path.join(work, sub) if sub else work
        os.makedirs(d, exist_ok=True)
        path = os.path.join(d, name)
        with open(path, "w", encoding="utf-8", newline="") as f:
            f.write(css)
        # a bystander file that must not be touched or consumed (single-file invocation)
        with open(os.path.join(d, "other.txt"), "w") as f:
            f.write("x")
        before = clilib.listing(work)
        args = ["--mode", str(mode)]
        if premium:
            args.append("--premium")
        if default_bg is not None:
            args += ["--default-bg", default_bg]
        # single-file and directory invocation (a file named *_cm.css is only an input when named explicitly)
        target_arg = path if (rnd.random() < 0.7 or name.endswith("_cm.css")) else work
        res = clilib.run_cli(target_arg, args, cwd)
        after = clilib.listing(work)
        out_path = os.path.join(d, os.path.splitext(name)[0] + "_cm.css")
        out_rel = os.path.relpath(out_path, work)
        new_files = sorted(k for k in after if k not in before)
        cwd_files = sorted(os.listdir(cwd))
        inputs_unchanged = all(after.get(k) == v for k, v in before.items())
        out_exists = os.path.exists(out_path)
        out_css = open(out_path, encoding="utf-8").read() if out_exists else ""
        so = clilib.parse_stdout(res["stdout"])
        cards = clilib.parse_report(os.path.join(cwd, "cm_colors_report.html")) or []
        ids = clilib.Ids()
        flat_in = clilib.flatten_sheet(css, ids)
        flat_out = clilib.flatten_sheet(out_css, ids) if out_exists else []
        mark_last(flat_in)
        mark_last(flat_out)
        out_parses = out_exists and not any(it["k"] in ("error", "declerror") for it in flat_out) or \
            (out_exists and [it["k"] for it in flat_out if it["k"] in ("error", "declerror")] == [it["k"] for it in flat_in if it["k"] in ("error", "declerror")])
        eff_out = clilib.effective_colours(out_css) if out_exists else {}
        eff_bg_out = clilib.effective_colours(out_css, prop="background-color") if out_exists else {}
        tbl = clilib.var_table(nodes)
        # names referenced (transitively) by each rule's text colour
        def refs_of(e, seen=()):
            if e is None:
                return set()
            if e[0] == "lit":
                m = re.fullmatch(r"var\((--[\w-]+)\)", e[1])
                return refs_of(("var", m.group(1)), seen) if m else set()
            nme = e[1]
            s = {nme}
            if nme in tbl and nme not in seen:
                s |= refs_of(tbl[nme], seen + (nme,))
            return s
        rules = []
        for n, path_, top in clilib.walk_rules(nodes):
            text = n["text"] if n["t"] == "rule" else n["color"]
            bg = n["bg"] if n["t"] == "rule" else None
            rules.append((n, text, bg, top))
        uses = {}
        for n, text, bg, top in rules:
            for nme in refs_of(text):
                uses.setdefault(nme, []).append(n["sel"])
            for nme in refs_of(bg):
                uses.setdefault(nme, []).append(n["sel"])
        card_by_sel = {}
        for c in cards:
            card_by_sel.setdefault(c["selector"], []).append(c)
        failed_sels = [s for _f, s in so["failedSel"]]
        evs = []
        adj_rules, adj_vars = [], []
        n_coloured = 0
        for n, text, bg, top in rules:
            if text is None:
                continue
            n_coloured += 1
            key = clilib.sel_key(n["sel"])
            T = clilib.resolve(text, tbl) or clilib.expr_css(text)
            B = (clilib.resolve(bg, tbl) or clilib.expr_css(bg)) if bg is not None else (default_bg if default_bg is not None else "white")
            try:
                pair = ColorPair(T, B)
                valid = bool(pair.is_valid)
            except Exception:
                pair, valid = None, False
            t_rgb = list(pair.text.rgb) if valid else []
            b_rgb = list(pair.bg.rgb) if valid else []
            api = {"ok": False, "css": []}
            if valid:
                try:
                    val, ok = pair.make_readable(mode=mode, very_readable=premium)
                    api = {"ok": bool(ok), "css": (list(val) if pairs.is_rgb_ints(val) else rgb_of(val))}
                except Exception:
                    pass
            in_card = key in card_by_sel
            in_failed = key in failed_sels
            cat = "both" if in_card and in_failed else "card" if in_card else "failed" if in_failed else "rest"
            card = card_by_sel[key][0] if in_card else None
            if in_card and len(card_by_sel[key]) > 1:
                cat = "both"
            card_after = rgb_of(card["after"]) if card else []
            card_bg_ok = True
            if card:
                try:
                    cb = Color(card["bg"])
                    card_bg_ok = cb.is_valid and list(cb.rgb) == b_rgb
                except Exception:
                    card_bg_ok = False
            rid = ids(("sel", clilib.norm_tokens(tinycss2.parse_component_value_list(n["sel"]))))
            items_in = [it for it in flat_in if it["rule"] == rid]
            items_out = [it for it in flat_out if it["rule"] == rid]
            names = refs_of(text)
            known = ""
            if any(len(set(uses.get(nm, []))) > 1 for nm in names) or (bg is not None and any(len(set(uses.get(nm, []))) > 1 for nm in refs_of(bg))):
                known = "F6"
            elif n["t"] == "vars":
                known = "F4"
            elif text[0] == "varfb" or (text[0] == "lit" and re.search(r"var\(.*,", text[1])):
                known = "F5"
            if cat in ("card", "both"):
                adj_rules.append(rid)
                adj_vars += sorted(names)
            w = eff_out.get(key)
            # the rule as it stands in the WRITTEN file (for rules counted readable): effective text colour over its background
            out_text, out_bg = [], []
            if w:
                try:
                    ob = eff_bg_out.get(key) or (default_bg if default_bg is not None else "white")
                    op = ColorPair(w, ob)
                    if op.is_valid:
                        out_text, out_bg = list(op.text.rgb), list(op.bg.rgb)
                except Exception:
                    pass
            strip = lambda items: [dict(it, b=0) if it["k"] == "decl" and it["name"].startswith("--") else it for it in items]
            evs.append({"e": "rule", "sel": key, "cat": cat, "validPair": valid, "text": t_rgb, "bg": b_rgb, "api": api,
                        "cardAfter": card_after, "cardBgOk": bool(card_bg_ok), "written": rgb_of(w) if w else [],
                        "unchanged": strip(items_in) == strip(items_out), "outText": out_text, "outBg": out_bg, "known": known, "T": T[:40], "B": str(B)[:40]})
        allowed_new = [out_rel]
        run_ev = {"e": "run", "mode": mode, "premium": bool(premium), "exit": res["exit"], "exception": res["exception"],
                  "counts": {"accessible": so["accessible"], "tuned": so["tuned"], "failed": so["failed"]},
                  "ncards": len(cards), "nlisted": len(so["failedSel"]), "nColoured": n_coloured,
                  "inputsUnchanged": bool(inputs_unchanged), "newFiles": new_files + ["cwd:" + f for f in cwd_files],
                  "allowedNew": allowed_new + ["cwd:cm_colors_report.html"], "skipped": False,
                  "outputExists": bool(out_exists), "outParses": bool(out_parses), "flatIn": flat_in, "flatOut": flat_out,
                  "adjRules": sorted(set(adj_rules)), "adjVars": sorted(set(adj_vars)), "stderr": res["stderr"][-300:]}
        info = {"css": css, "args": args, "invocation": "file" if target_arg == path else "directory", "stdout": res["stdout"][-1500:],
                "out_css": out_css[:4000], "seed": seed}
        return [run_ev] + evs, info
    finally:
        shutil.rmtree(work, ignore_errors=True)
        shutil.rmtree(cwd, ignore_errors=True)


def mark_last(flat):
    """flag the last `color` declaration of each rule (the one the cascade uses)"""
    last = {}
    for k, it in enumerate(flat):
        it["last"] = False
        if it["k"] == "decl" and it["name"] == "color":
            last[it["rule"]] = k
    for k in last.values():
        flat[k]["last"] = True


def design_models(rep, t):
    cfg = "MC_Cli.cfg" if t == "thorough" else "MC_Cli_small.cfg"
    rep.add_model(cfg[:-4], vlib.check_model("Cli", cfg, heap="24g", timeout=3000),
                  "as-is rewrite algorithm over all abstract stylesheets: Partition, CardMeetsTarget, FailedUnchanged, "
                  "ReportedIsWritten modulo the input classes F4/F5/F6")



# ----------------------------------------------------------------------------- Level B: Cli.tla predicts the real run

CLIMODEL_CFG = "SPECIFICATION TSpec\nCONSTANTS NR = 60\nPOSTCONDITION KitPost\nCHECK_DEADLOCK FALSE\n"


def model_run(job):
    """one stylesheet without background variables / translucent literals: abstract it for Cli.tla, take the oracle table from
    the Python API, run the real command, abstract what it reported and wrote."""
    seed, settings, gen_kw = job
    rnd = random.Random(seed)
    vlib.use_repo()
    from cm_colors import ColorPair, Color
    mode, premium, default_bg = settings
    g = clilib.Gen(rnd, bgvars=False, translucent=False, **gen_kw)
    nodes = g.sheet()
    css = clilib.render(nodes, rnd)
    target = 7.0 if premium else 4.5
    cids, bids = {}, {}

    def cid(text):
        try:
            c = Color(text)
            key = tuple(c.rgb) if c.is_valid else "invalid:" + str(text)
        except Exception:
            key = "invalid:" + str(text)
        if key not in cids:
            cids[key] = (len(cids) + 1) if not isinstance(key, str) else (1000 + len(cids))
        return cids[key]

    def bid(text):
        c = Color(text)
        key = tuple(c.rgb)
        return "b%d" % bids.setdefault(key, len(bids) + 1)

    def expr(e):
        if e is None:
            return ["none"]
        if e[0] == "lit":
            m = re.fullmatch(r"var\((--[\w-]+)\)", e[1])
            return ["var", m.group(1)] if m else ["lit", cid(e[1])]
        if e[0] == "var":
            return ["var", e[1]]
        return ["varfb", e[1], cid(e[2])]

    tbl = clilib.var_table(nodes)
    vdef = {k: expr(v) for k, v in tbl.items()}
    if not vdef:
        vdef = {"--none": ["undef"]}
    flat = [(n, top) for n, _p, top in clilib.walk_rules(nodes)]
    rules, sels = [], []
    dbg = default_bg if default_bg is not None else "white"
    for n, top in flat:
        text = n["text"] if n["t"] == "rule" else n["color"]
        bg = n["bg"] if n["t"] == "rule" else None
        rules.append({"root": bool(n["t"] == "vars"), "col": expr(text), "bg": bid(bg[1]) if bg is not None else bid(dbg)})
        sels.append(clilib.sel_key(n["sel"]))
    tab = []          # filled lazily (model_refinement): the model names the entries it needs
    # the real run
    work = tempfile.mkdtemp(prefix="verif_clim_")
    cwd = tempfile.mkdtemp(prefix="verif_cwd_")
    try:
        path = os.path.join(work, "m.css")
        open(path, "w", encoding="utf-8").write(css)
        args = ["--mode", str(mode)] + (["--premium"] if premium else []) + (["--default-bg", default_bg] if default_bg is not None else [])
        res = clilib.run_cli(path, args, cwd)
        outp = os.path.join(work, "m_cm.css")
        out_css = open(outp, encoding="utf-8").read() if os.path.exists(outp) else ""
        so = clilib.parse_stdout(res["stdout"])
        cards = clilib.parse_report(os.path.join(cwd, "cm_colors_report.html")) or []
        eff = clilib.effective_colours(out_css)
    finally:
        shutil.rmtree(work, ignore_errors=True)
        shutil.rmtree(cwd, ignore_errors=True)

    def cid_known(text):
        """colour ids of what the command reported / wrote (interned like the input colours; -1 = nothing resolvable)"""
        if text is None:
            return -1
        return cid(text)

    ocards = []
    for c in cards:
        if c["selector"] in sels:
            ocards.append([sels.index(c["selector"]) + 1, cid_known(c["after"])])
    listed = [sels.index(s_) + 1 for _f, s_ in so["failedSel"] if s_ in sels]
    effs = []
    for k, r in enumerate(rules):
        if r["col"] == ["none"]:
            effs.append(-2)
        else:
            effs.append(cid_known(eff.get(sels[k])) if sels[k] in eff else -2)
    return {"vdef": vdef, "rules": rules, "tab": tab, "cids": [[list(k) if not isinstance(k, str) else k, v] for k, v in cids.items()],
            "bids": [[list(k), "b%d" % v] for k, v in bids.items()], "mode": mode, "premium": bool(premium),
            "obs": {"acc": so["accessible"], "tuned": so["tuned"], "failed": so["failed"], "cards": ocards, "listed": listed, "eff": effs},
            "css": css[:1500], "args": args}


def model_refinement(rep, t, rnd):
    n = 60 if t == "quick" else 1500
    jobs = []
    for k in range(n):
        settings = (k % 3, bool((k // 3) & 1), rnd.choice([None, "white", "#000000", "#fafafa"]))
        kw = dict(nrules=rnd.choice([2, 4, 7, 12]), depth=rnd.choice([0, 1, 2]), f_known=rnd.choice([0.0, 0.6, 0.9]), carry=False,
                  nvars=rnd.choice([1, 2, 4]))
        jobs.append((rnd.randrange(1 << 30), settings, kw))
    runs = vlib.pool_map(model_run, jobs, chunksize=2)
    vlib.use_repo()
    from cm_colors import ColorPair
    from cm_colors.core.contrast import calculate_contrast_ratio

    def oracle(run, c, b):
        """the Python API's answer for colour id c on background id b (ids local to the run)"""
        cmap = {v: (tuple(k) if isinstance(k, list) else k) for k, v in run["cids"]}
        bmap = {v: tuple(k) for k, v in run["bids"]}
        key = cmap.get(c)
        if key is None or isinstance(key, str):
            return ["invalid"]
        p = ColorPair(tuple(key), bmap[b])
        if calculate_contrast_ratio(p.text.rgb, p.bg.rgb) >= (7.0 if run["premium"] else 4.5):
            return ["pass"]
        val, ok = p.make_readable(mode=run["mode"], very_readable=run["premium"])
        if not ok:
            return ["fail"]
        k2 = tuple(val)
        known = {(tuple(k) if isinstance(k, list) else k): v for k, v in run["cids"]}
        if k2 not in known:
            known[k2] = max([v for v in known.values() if v < 1000] + [0]) + 1
            run["cids"].append([list(k2), known[k2]])
        return ["tuned", known[k2]]

    pending = list(range(len(runs)))
    total = dict(distinct=0, generated=0)
    final_bad = {}
    for rnd_no in range(12):
        if not pending:
            break
        sub = [runs[j] for j in pending]
        agg = vlib.validate_traces("TrCliModel", sub, cfg=CLIMODEL_CFG, min_per_shard=10)
        total["distinct"] += agg["distinct"]
        total["generated"] += agg["generated"]
        nxt = []
        badmap = {b["tid"]: b for b in agg["bad"]}
        for pos, j in enumerate(pending):
            b = badmap.get(pos)
            need = [x for x in (b["incon"] if b else []) if x.startswith("M_")]
            if need:
                for x in need:
                    _m, c, bb = x.split("_", 2)
                    runs[j]["tab"].append([int(c), bb, oracle(runs[j], int(c), bb)])
                nxt.append(j)
            else:
                final_bad[j] = b
        pending = nxt
    agg = {"bad": [dict(b, tid=j) for j, b in final_bad.items() if b], "distinct": total["distinct"], "generated": total["generated"]}
    rep.extra["refinement_runs_with_incomplete_table"] = len(pending)
    drift = [b for b in agg["bad"] if any(x.startswith("D_") for x in b["incon"])]
    rep.drift += len(drift)
    rep.extra["refinement_runs_checked_against_Cli_tla"] = len(runs)
    rep.extra["refinement_runs_predicted_exactly"] = len(runs) - len(drift)
    rep.extra["refinement_cards_predicted"] = sum(len(r["obs"]["cards"]) for r in runs)
    for b in drift[:4]:
        r = runs[b["tid"]]
        print(f"DRIFT module=Cli {b['incon']} args={r['args']} obs={json.dumps(r['obs'])[:300]} sheet={r['css'][:400]!r}")


def run(pid):
    t = vlib.tier()
    rnd = random.Random(vlib.seed() * 2038074743 + sum(map(ord, pid)))
    rep = vlib.Report(pid)
    rep.assumptions = ["TLC/SANY", "tinycss2 as the CSS tokenizer on both sides of every comparison", "html.parser as the HTML tokenizer for report cards",
                       "WCAG tables generator", "the Python API of the same working tree as the reference for reported colours (as the property states)"]
    rep.rule = ("stylesheets from a seeded grammar (rules with/without background, literals in 9 spellings, custom properties incl. chains, "
                "fallbacks and undefined ones, !important, repeated declarations, comments, nesting in @media/@supports to depth 2-4, unrelated "
                "at-rules, strings/urls with braces) x --mode x --premium x --default-bg; single-file and directory invocation; "
                "distinct = distinct generated stylesheet text")
    design_models(rep, t)
    n = 150 if t == "quick" else 3500
    jobs = []
    for k in range(n):
        settings = (k % 3, bool((k // 3) & 1), rnd.choice([None, None, "white", "#000000", "rgb(30, 30, 40)", "#fafafa"]))
        kw = dict(nrules=rnd.choice([2, 4, 8, 14] if t == "quick" else [2, 5, 10, 20, 40]), depth=rnd.choice([0, 1, 2, 4]),
                  f_known=rnd.choice([0.0, 0.0, 0.0, 0.5]), carry=True, nvars=rnd.choice([1, 3, 5]))
        jobs.append((rnd.randrange(1 << 30), settings, kw))
    res = vlib.pool_map(one_sheet, jobs, chunksize=2)
    behs = [b for b, _ in res]
    infos = [i for _, i in res]
    agg = vlib.validate_traces("TrCli", behs, min_per_shard=10)
    rep.add_traces(agg, len(behs))
    rep.evaluations = sum(len(b) - 1 for b in behs)
    rep.nontrivial = len({i["css"] for i in infos})
    cats = {}
    for b in behs:
        for e in b[1:]:
            cats[e["cat"]] = cats.get(e["cat"], 0) + 1
    rep.extra["rules_by_reported_category"] = cats
    rep.extra["invocations"] = {k: sum(1 for i in infos if i["invocation"] == k) for k in ("file", "directory")}
    rep.sample({"stylesheet": infos[0]["css"][:700], "args": infos[0]["args"], "rule_events": behs[0][1:4]})
    for bad in agg["bad"]:
        tid = bad["tid"]
        for k in bad["incon"]:
            if k.startswith("K_"):
                rep.known_hits[k[2:]] = rep.known_hits.get(k[2:], 0) + 1
            elif k.startswith(PREFIX[pid]):
                rep.inconclusive += 1
        mine = [f for f in bad["fails"] if f.startswith(PREFIX[pid])]
        other = [f for f in bad["fails"] if not f.startswith(PREFIX[pid])]
        if other:
            print(f"NOTE: stylesheet seed {infos[tid]['seed']} also failed {other} (another property's clauses)")
        if mine:
            rep.violation("/".join(mine), {"stylesheet": infos[tid]["css"], "args": infos[tid]["args"], "invocation": infos[tid]["invocation"],
                          "stdout": infos[tid]["stdout"], "written": infos[tid]["out_css"], "rule_events": [e for e in behs[tid][1:]],
                          "run": {k: v for k, v in behs[tid][0].items() if k not in ("flatIn", "flatOut")},
                          "reproduce": "write `stylesheet` to s.css and run: cm-colors s.css " + " ".join(infos[tid]["args"])})
    if pid == "C08":
        model_refinement(rep, t, rnd)
    else:
        rep.known_hits = {}
    return rep.finish()
