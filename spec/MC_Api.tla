---- MODULE MC_Api ----
(***************************************************************************)
(* Design-level exploration of Api.tla: an honest library (a fixed,        *)
(* unknown function `lib` of the arguments, chosen in Init; writes only    *)
(* what was asked for) driven through every history of at most Depth       *)
(* operations over three kinds of input (already readable, fixable,        *)
(* unparseable).  Shows that the clauses of Api.tla are exactly what such  *)
(* a library satisfies (no operation is ever refused: NoRefusal), and the  *)
(* history-level consequences (C12, C14, C15, C17).                        *)
(***************************************************************************)
EXTENDS Api
CONSTANTS Depth
Keys == {"pass", "fixable", "bad"}
ValidKey(k) == k # "bad"
Modes == {1}
Results == 1..2
VARIABLES lib, steps, asked, lastBulk
vars == <<objs, memo, env, lib, steps, asked, lastBulk>>
LibDomain == {<<k, m, v>> : k \in {x \in Keys : ValidKey(x)}, m \in Modes, v \in BOOLEAN}
Init == /\ ApiInit
        /\ lib \in [LibDomain -> Results]
        /\ steps = 0 /\ asked = FALSE /\ lastBulk = <<>>
LibRes(k, m, v) == IF ValidKey(k) THEN <<lib[<<k, m, v>>], lib[<<k, m, v>>] = 1>> ELSE NoneFalse
DoNew == \E k \in Keys : /\ Cardinality(DOMAIN objs) < 2
                          /\ New(Cardinality(DOMAIN objs) + 1, k, ValidKey(k))
                          /\ UNCHANGED <<lib, asked, lastBulk>>
DoFix == \E o \in DOMAIN objs, m \in Modes, v \in BOOLEAN, show \in BOOLEAN, save \in BOOLEAN :
           LET valid == objs[o].valid
               dout == IF (show \/ save) /\ valid THEN 1 ELSE 0
               nf == IF save /\ valid THEN {QuickReport} ELSE {}
           IN /\ Fix(o, m, v, show, save, LibRes(objs[o].key, m, v), dout, nf, {})
              /\ asked' = (asked \/ show \/ save) /\ UNCHANGED <<lib, lastBulk>>
DoBulk == \E e1 \in Keys, e2 \in Keys, m \in Modes, v \in BOOLEAN, save \in BOOLEAN :
           LET entries == <<[key |-> e1, valid |-> ValidKey(e1)], [key |-> e2, valid |-> ValidKey(e2)]>>
               results == [j \in 1..2 |-> IF entries[j].valid
                                          THEN [res |-> LibRes(entries[j].key, m, v)[1], status |-> "readable", unchanged |-> FALSE]
                                          ELSE [res |-> 0, status |-> InvalidStatus, unchanged |-> TRUE]]
               anyValid == entries[1].valid \/ entries[2].valid
           IN /\ Bulk(entries, m, v, save, results, IF save /\ anyValid THEN 1 ELSE 0, IF save /\ anyValid THEN {BulkReport} ELSE {}, {})
              /\ asked' = (asked \/ save) /\ lastBulk' = <<entries, results, m, v>> /\ UNCHANGED lib
DoOther == Other(1, {"cm_colors_report.html"}) /\ asked' = TRUE /\ UNCHANGED <<lib, lastBulk>>
Next == steps < Depth /\ steps' = steps + 1 /\ (DoNew \/ DoFix \/ DoBulk \/ DoOther)
Spec == Init /\ [][Next]_vars
\* C15: the observed function never conflicts with the library's function
MemoAgreesWithLib == \A k \in DOMAIN memo : k[2] \in Modes => memo[k] = LibRes(k[1], k[2], k[3])
\* C17
QuietHistory == ~asked => env = [out |-> 0, files |-> {}]
FilesOnlyDocumented == env.files \subseteq {QuickReport, BulkReport, "cm_colors_report.html"}
\* C12: a bulk result equals the single-pair answers recorded for the same entries and settings
BulkMatchesMemo == lastBulk # <<>> =>
   \A j \in 1..2 : LET k == <<lastBulk[1][j].key, lastBulk[3], lastBulk[4]>> IN
        lastBulk[1][j].valid /\ Has(memo, k) => memo[k][1] = lastBulk[2][j].res
\* C14
InvalidInert == \A k \in DOMAIN memo : ~ValidKey(k[1]) /\ k[2] \in Modes => memo[k] = NoneFalse
\* the honest library is never refused by the specification: each operation kind stays enabled
NoRefusal == steps < Depth /\ DOMAIN objs # {} => ENABLED DoFix /\ ENABLED DoBulk
====
