---- MODULE Parser ----
(***************************************************************************)
(* The colour parser's treatment of tuples and lists, as the code does it  *)
(* today (parse_color_to_rgb, the branch "Normalise tuple/list inputs"):   *)
(* a case analysis over element classes, transcribed branch by branch.     *)
(*   length 3: "looks like HSL" heuristic, else per-component RGB rules    *)
(*             (ints 0..255, floats in [0,1] normalised, other floats      *)
(*             rounded, numeric / percentage strings)                      *)
(*   length 4: "looks like RGB" heuristic -> RGBA through the number-token *)
(*             rules and source-over compositing; else HSLA (components    *)
(*             through float(), truncating composite)                      *)
(*   other lengths: invalid                                                *)
(* An element is a record [cls, m, pct]: cls in {"int","bool","float",     *)
(* "str","none","junk"}, m = numeric value in THOUSANDTHS, pct = a string  *)
(* with a % sign.  The module computes, for an abstract sequence, either   *)
(* <<"invalid">> or <<"valid", set3>> with set3 the admissible bytes per   *)
(* channel (CssColor conventions).  TLC enumerates every sequence over a   *)
(* set of representative elements (ParserGen); TrParser.tla judges what    *)
(* the real parser returned for each.  Refinement level: a mismatch is     *)
(* DRIFT (the documentation of these heuristics is the code itself).       *)
(***************************************************************************)
EXTENDS CssColor, TLC, FiniteSets

Num(e) == e.cls \in {"int", "bool", "float"}         \* isinstance(x, (int, float)) - bool is an int
IsIntLike(e) == e.cls \in {"int", "bool"}
Invalid == <<"invalid">>
Valid(s3) == <<"valid", s3>>

\* ---------------------------------------------------------------- number-token rules (_parse_number_token on a string)
\* component: percentages are clamped to 0..255; plain numbers must lie in 0..255.  Result: set of ints after round(), or {}
TokenComponent(m, pct) ==
  IF pct THEN (IF m <= 0 THEN {0} ELSE IF m >= 100000 THEN {255} ELSE RoundHalfSet(m * 255, 100000))
  ELSE IF m < 0 \/ m > 255000 THEN {} ELSE RoundHalfSet(m, 1000)
\* alpha in thousandths (exactly representable cases only): 0..1 as is, (1,100] as percent, percent strings /100; else -1
TokenAlpha(m, pct) ==
  IF pct THEN (IF m <= 0 THEN 0 ELSE IF m >= 100000 THEN 1000 ELSE m \div 100)
  ELSE IF m >= 0 /\ m <= 1000 THEN m ELSE IF m > 1000 /\ m <= 100000 THEN m \div 100 ELSE -1

\* ---------------------------------------------------------------- length 3
LooksHsl(s) ==
  /\ Num(s[1]) /\ s[1].m > 1000 /\ s[1].m <= 360000
  /\ s[2].cls = "float" /\ s[2].m >= 0 /\ s[2].m <= 1000
  /\ s[3].cls = "float" /\ s[3].m >= 0 /\ s[3].m <= 1000
\* one RGB component of a 3-sequence -> set of admissible ints ({} = error)
Comp3(e) ==
  IF e.cls = "float" /\ e.m >= 0 /\ e.m <= 1000 THEN RoundHalfSet(e.m * 255, 1000)
  ELSE IF IsIntLike(e) /\ e.m >= 0 /\ e.m <= 255000 THEN {e.m \div 1000}
  ELSE IF e.cls = "float" /\ e.m >= 0 /\ e.m <= 255000 THEN RoundHalfSet(e.m, 1000)
  ELSE IF e.cls = "str" THEN TokenComponent(e.m, e.pct)
  ELSE {}
Parse3(s) ==
  IF LooksHsl(s) /\ s[1].m % 1000 = 0
  THEN Valid(HslToRgb(s[1].m \div 1000, s[2].m, s[3].m))
  ELSE IF LooksHsl(s) THEN <<"unmodelled">>                      \* fractional hue: outside this model
  ELSE LET c == <<Comp3(s[1]), Comp3(s[2]), Comp3(s[3])>>
       IN IF c[1] = {} \/ c[2] = {} \/ c[3] = {} THEN Invalid ELSE Valid(c)

\* ---------------------------------------------------------------- length 4
LooksRgb(s) == \E k \in 1..3 : IsIntLike(s[k]) \/ (Num(s[k]) /\ s[k].m > 1000)
\* component through str(x) and the number-token rules: str(True) is not a number
Comp4(e) ==
  IF e.cls = "bool" \/ e.cls \in {"none", "junk"} THEN {}
  ELSE TokenComponent(e.m, e.cls = "str" /\ e.pct)
Alpha4(e) == IF e.cls \in {"bool", "none", "junk"} THEN -1 ELSE TokenAlpha(e.m, e.cls = "str" /\ e.pct)
\* HSLA path: float(x) on every component; strings must be plain numbers; range checks s, l, a in [0, 1]
FloatOk(e) == e.cls \in {"int", "bool", "float"} \/ (e.cls = "str" /\ ~e.pct)
Parse4(s, bg) ==
  IF LooksRgb(s)
  THEN LET c == <<Comp4(s[1]), Comp4(s[2]), Comp4(s[3])>>
           a == Alpha4(s[4])
       IN IF c[1] = {} \/ c[2] = {} \/ c[3] = {} \/ a < 0 THEN Invalid
          ELSE Valid([k \in 1..3 |-> UNION {Over(<<f, f, f>>, a, 1000, bg)[k] : f \in c[k]}])   \* round(f*a + bg*(1-a)) within 1.5
  ELSE IF ~(FloatOk(s[1]) /\ FloatOk(s[2]) /\ FloatOk(s[3]) /\ FloatOk(s[4])) THEN Invalid
  ELSE IF s[2].m < 0 \/ s[2].m > 1000 \/ s[3].m < 0 \/ s[3].m > 1000 \/ s[4].m < 0 \/ s[4].m > 1000 THEN Invalid
  ELSE <<"hsla", s[1].m, s[2].m, s[3].m, s[4].m>>                \* judged by interval over the two neighbouring integer hues

Parse(s, bg) ==
  IF Len(s) = 3 THEN Parse3(s) ELSE IF Len(s) = 4 THEN Parse4(s, bg) ELSE Invalid

\* ---------------------------------------------------------------- generator: all sequences over representative elements
E(cls, m, pct) == [cls |-> cls, m |-> m, pct |-> pct]
Reps == { E("int", 0, FALSE), E("int", 1000, FALSE), E("int", 200000, FALSE), E("int", 255000, FALSE), E("int", 256000, FALSE),
          E("int", -1000, FALSE), E("bool", 1000, FALSE), E("bool", 0, FALSE),
          E("float", 0, FALSE), E("float", 500, FALSE), E("float", 1000, FALSE), E("float", 1500, FALSE), E("float", 200000, FALSE),
          E("float", 255000, FALSE), E("float", 300000, FALSE), E("float", -500, FALSE), E("float", 360000, FALSE),
          E("str", 128000, FALSE), E("str", 50000, TRUE), E("str", 300000, FALSE), E("str", 500, FALSE), E("str", 120000, TRUE),
          E("none", 0, FALSE), E("junk", 0, FALSE) }
VARIABLE sq
GenInit == sq = <<>>
GenNext == Len(sq) < 4 /\ \E e \in Reps : sq' = Append(sq, e)
GenSpec == GenInit /\ [][GenNext]_sq
UpTo3 == Len(sq) <= 3        \* (state constraint of the generator configuration that enumerates all 3-sequences)
\* design-level sanity of the transcription
Total == Len(sq) \in {3, 4} => Parse(sq, <<255, 255, 255>>)[1] \in {"valid", "invalid", "hsla", "unmodelled"}
ValidSetsSane == Len(sq) \in {3, 4} /\ Parse(sq, <<255, 255, 255>>)[1] = "valid" =>
   \A k \in 1..3 : Parse(sq, <<255, 255, 255>>)[2][k] # {} /\ Parse(sq, <<255, 255, 255>>)[2][k] \subseteq 0..255
IntTripleIsItself == Len(sq) = 3 /\ (\A k \in 1..3 : sq[k].cls = "int" /\ sq[k].m >= 0 /\ sq[k].m <= 255000) =>
   Parse(sq, <<255, 255, 255>>) = Valid(<<{sq[1].m \div 1000}, {sq[2].m \div 1000}, {sq[3].m \div 1000}>>)
====
