---- MODULE WcagLumAll ----
(***************************************************************************)
(* C05, thorough tier: all 16,777,216 luminances observed from the         *)
(* implementation (one JSON chunk per red level, floor(L * 10^8)), and the  *)
(* ratio of every colour against black and white, against                  *)
(* Lum of Wcag.tla.  One state per red level.                              *)
(***************************************************************************)
EXTENDS Wcag, TLC, Json, IOUtils
VARIABLES r
Init == r \in 0..255
Next == UNCHANGED r
Spec == Init /\ [][Next]_r
Obs(rr) == JsonDeserialize(IOEnv.LUM_DIR \o "/" \o ToString(rr) \o ".json")
AllLumOk == LET o == Obs(r).lum IN
  \A g \in 0..255 : \A b \in 0..255 : Abs(o[g + 1][b + 1] - Lum(<<r, g, b>>)) <= 3
\* every colour against black and against white: the observed ratio (millionths, either argument order) is Ratio6
AllVsBlackWhiteOk == LET o == Obs(r) IN
  \A g \in 0..255 : \A b \in 0..255 :
     /\ Abs(o.black[g + 1][b + 1] - Ratio6(<<r, g, b>>, <<0, 0, 0>>)) <= Ratio6Err + 1
     /\ Abs(o.white[g + 1][b + 1] - Ratio6(<<r, g, b>>, <<255, 255, 255>>)) <= Ratio6Err + 1
====
