---- MODULE Report ----
(***************************************************************************)
(* C19: the HTML reports interpolate user text into two kinds of slots,    *)
(* element content (<div class="selector">S</div>) and a double-quoted     *)
(* attribute value (style="background-color: S; ...").  This module models *)
(* the escaping discipline, an abstract HTML tokenizer for exactly these   *)
(* two contexts, and the safety property: for every string over a markup-  *)
(* rich alphabet the rendered fragment has the structure it has for benign *)
(* text and the slot shows the string verbatim.                            *)
(*                                                                         *)
(* Strings are sequences of symbols (indices into Sigma); a symbol expands *)
(* to characters.  Escaping modes: "full" (html.escape, quotes included -  *)
(* what the code does), "noquote" (html.escape(quote=False)), "none",      *)
(* "skipIfRef" (leave text unescaped when it already contains a character  *)
(* reference) - the last three are regression configurations.              *)
(***************************************************************************)
EXTENDS Integers, Sequences, TLC
CONSTANTS MaxLen, Mode

Sigma == << "<", ">", "&", "\"", "'", "`", "/", "=", " ", "a", "script", "style=", "onerror=", "</div>", "</style>", "-->",
            "&lt;", "&amp;", "&#39;", "&quot",
            "@", "$", "~", "^",     \* stand for FULLWIDTH " < > & (U+FF02, U+FF1C, U+FF1E, U+FF06): ordinary characters for
                                    \* HTML that must be shown verbatim (TLA+ strings are ASCII; the harness maps both ways)
            "\\", "\\074", "\\g<0>", "{0}", "%s",
            "</SCRIPT>", "</script >" >>  \* text that means something to a templating step applied AFTER escaping
                                    \* (regex replacement templates, str.format, %-formatting): ordinary characters for HTML
NS == Len(Sigma)

\* ---- characters
Chars(str) == [k \in 1..Len(str) |-> SubSeq(str, k, k)]     \* TLC strings support Len/SubSeq
RECURSIVE Flatten(_)
Flatten(ss) == IF ss = <<>> THEN <<>> ELSE Head(ss) \o Flatten(Tail(ss))
Expand(sym) == Flatten([k \in 1..Len(sym) |-> Chars(Sigma[sym[k]])])

EscChar(c, quotes) ==
  IF c = "&" THEN Chars("&amp;") ELSE IF c = "<" THEN Chars("&lt;") ELSE IF c = ">" THEN Chars("&gt;")
  ELSE IF quotes /\ c = "\"" THEN Chars("&quot;") ELSE IF quotes /\ c = "'" THEN Chars("&#x27;") ELSE <<c>>
EscapeChars(cs, quotes) == Flatten([k \in 1..Len(cs) |-> EscChar(cs[k], quotes)])

\* does the character sequence contain something an HTML parser decodes as a character reference?
Refs == << <<"&lt;", "<">>, <<"&gt;", ">">>, <<"&amp;", "&">>, <<"&quot;", "\"">>, <<"&#x27;", "'">>, <<"&#39;", "'">>,
           <<"&lt", "<">>, <<"&gt", ">">>, <<"&amp", "&">>, <<"&quot", "\"">> >>       \* legacy forms without ';' last
StartsWith(cs, p, str) == p + Len(str) - 1 <= Len(cs) /\ \A k \in 1..Len(str) : cs[p + k - 1] = SubSeq(str, k, k)
RefAt(cs, p) == LET hits == {j \in 1..Len(Refs) : StartsWith(cs, p, Refs[j][1])}
                IN IF hits = {} THEN 0 ELSE CHOOSE j \in hits : \A h \in hits : j <= h
HasRef(cs) == \E p \in 1..Len(cs) : RefAt(cs, p) # 0

Escape(cs) ==
  CASE Mode = "full" -> EscapeChars(cs, TRUE)
    [] Mode = "noquote" -> EscapeChars(cs, FALSE)
    [] Mode = "none" -> cs
    [] Mode = "skipIfRef" -> IF HasRef(cs) THEN cs ELSE EscapeChars(cs, TRUE)

\* ---- abstract tokenizer for the two contexts.
\* Result: [text |-> decoded characters seen as slot text, breaks |-> TRUE if markup structure is introduced]
IsLetter(c) == c \in {"a", "s", "c", "r", "i", "p", "t", "y", "l", "e", "o", "n", "d", "v"}
RECURSIVE Scan(_, _, _, _)
Scan(cs, p, ctx, acc) ==
  IF p > Len(cs) THEN [text |-> acc, breaks |-> FALSE]
  ELSE LET c == cs[p]
           r == RefAt(cs, p)
       IN IF r # 0 THEN Scan(cs, p + Len(Refs[r][1]), ctx, Append(acc, Refs[r][2]))
          ELSE IF ctx = "content" /\ c = "<" /\ p < Len(cs) /\ (IsLetter(cs[p + 1]) \/ cs[p + 1] \in {"/", "!", "?"})
               THEN [text |-> acc, breaks |-> TRUE]                 \* a tag (or comment / bogus comment) opens
          ELSE IF ctx = "attr" /\ c = "\"" THEN [text |-> acc, breaks |-> TRUE]     \* the attribute value ends early
          ELSE Scan(cs, p + 1, ctx, Append(acc, c))
Render(cs, ctx) == Scan(Escape(cs), 1, ctx, <<>>)

VARIABLES sym, ctx
vars == <<sym, ctx>>
Init == sym = <<>> /\ ctx \in {"content", "attr"}
Next == Len(sym) < MaxLen /\ \E k \in 1..NS : sym' = Append(sym, k) /\ UNCHANGED ctx
Spec == Init /\ [][Next]_vars

\* C19: same structure as benign text, and the text is displayed verbatim
SafeP(given, rendered) == ~rendered.breaks /\ rendered.text = given
Safe == SafeP(Expand(sym), Render(Expand(sym), ctx))
====
