#!/usr/bin/env python3
"""Generate harness/special_colours.json: 8-bit colours whose OKLCH coordinates sit on numerically special values - hue within
0.01 degree of the 0/360 wrap, within 0.005 of 90/180/270, chroma tiny but not zero - found over all 2^24 colours with numpy
(tooling interpreter python3-vt).  INPUT DATA only (the checks' verdicts are TLC's).  Deterministic."""
import json, os
import numpy as np


def main():
    idx = np.arange(1 << 24, dtype=np.uint32)
    v = np.arange(256) / 255.0
    lin = np.where(v <= 0.04045, v / 12.92, ((v + 0.055) / 1.055) ** 2.4)
    r, g, b = lin[idx >> 16], lin[(idx >> 8) & 255], lin[idx & 255]
    l = 0.4122214708 * r + 0.5363325363 * g + 0.0514459929 * b
    m = 0.2119034982 * r + 0.6806995451 * g + 0.1073969566 * b
    s = 0.0883024619 * r + 0.2817188376 * g + 0.6299787005 * b
    l_, m_, s_ = np.cbrt(l), np.cbrt(m), np.cbrt(s)
    A = 1.9779984951 * l_ - 2.4285922050 * m_ + 0.4505937099 * s_
    B = 0.0259040371 * l_ + 0.7827717662 * m_ - 0.8086757660 * s_
    C = np.hypot(A, B)
    H = np.degrees(np.arctan2(B, A)) % 360.0
    out = {}
    chrom = C > 0.02

    def take(mask, n, seed):
        ids = np.nonzero(mask)[0]
        rng = np.random.default_rng(seed)
        if len(ids) > n:
            ids = rng.choice(ids, n, replace=False)
        return [[int(i >> 16), int((i >> 8) & 255), int(i & 255)] for i in sorted(ids.tolist())]

    out["hue_wrap"] = take(chrom & ((H >= 359.99) | (H < 0.01)), 400, 1)
    for q in (90, 180, 270):
        out[f"hue_{q}"] = take(chrom & (np.abs(H - q) < 0.005), 120, q)
    out["tiny_chroma"] = take((C > 1e-7) & (C < 0.0012), 300, 5)
    path = os.path.join(os.path.dirname(os.path.abspath(__file__)), "..", "harness", "special_colours.json")
    with open(path, "w") as f:
        json.dump(out, f, separators=(",", ":"))
    print({k: len(v_) for k, v_ in out.items()})


if __name__ == "__main__":
    main()
