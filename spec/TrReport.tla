---- MODULE TrReport ----
(***************************************************************************)
(* C19 trace specification: each event is one rendering of a report by the *)
(* real generator with a string over Report.tla's alphabet in one slot.    *)
(* The harness tokenises the written file with an HTML parser and reports  *)
(* the id of its tag/attribute-name structure (and of the structure for    *)
(* benign text in the same slot) plus the decoded text found in the slot,  *)
(* character by character.  TLC expands the symbols itself and judges      *)
(* SafeP - the predicate Report.tla model-checks for the escaping model.   *)
(***************************************************************************)
EXTENDS Report, TraceKit
VARIABLES tid, i, fails, incon, nt
tvars == <<tid, i, fails, incon, nt, sym, ctx>>
TInit == tid \in 1..NTraces /\ i = 1 /\ fails = {} /\ incon = {} /\ nt = 0 /\ sym = <<>> /\ ctx = "content"
Ev == Traces[tid][i]
Given(e) == IF e.raw = <<>> THEN Expand(e.sym) ELSE e.raw       \* end-to-end routes give the captured slot text itself
Observe ==
  /\ i <= Len(Traces[tid])
  /\ LET e == Ev
         rendered == [breaks |-> e.tags # e.benignTags, text |-> e.text]
     IN /\ fails' = fails \cup (IF e.raised # "" THEN {"C19_GeneratorRaised"}
                                ELSE IF rendered.breaks THEN {"C19_StructureChanged_" \o e.slot}
                                ELSE IF ~SafeP(Given(e), rendered) THEN {"C19_TextNotVerbatim_" \o e.slot} ELSE {})
        \* the model's own verdict on this string (Mode = "full"): the code is expected to behave like the model
        /\ incon' = incon \cup (IF e.raw = <<>> /\ ~SafeP(Expand(e.sym), Render(Expand(e.sym), e.ctx)) THEN {"D_ModelUnsafe"} ELSE {})
  /\ nt' = nt + 1 /\ i' = i + 1 /\ UNCHANGED <<tid, sym, ctx>>
Finish == /\ i = Len(Traces[tid]) + 1 /\ KitFinish(tid, fails, incon) /\ KitCount("renderings", nt)
          /\ i' = i + 1 /\ UNCHANGED <<tid, fails, incon, nt, sym, ctx>>
TNext == Observe \/ Finish
TSpec == TInit /\ [][TNext]_tvars
====
