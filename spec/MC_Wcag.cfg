SPECIFICATION Spec
INVARIANT Symmetric
INVARIANT Range
INVARIANT Diagonal
INVARIANT Only21
INVARIANT CmpAgrees
INVARIANT LevelsNested
INVARIANT Monotone
INVARIANT FineConsistent

CHECK_DEADLOCK FALSE
