---- MODULE CssGrid ----
(***************************************************************************)
(* C07, grids: one state per hue (hsl) or per red byte (six-digit hex);    *)
(* the library's observed results for the whole S x L (or G x B) plane are *)
(* read from a chunk file and judged against CssColor.tla.                 *)
(* Packed observation = r*65536 + g*256 + b, or -1 when the parser refused.*)
(***************************************************************************)
EXTENDS CssColor, TLC, Json, IOUtils
VARIABLES kind, x
vars == <<kind, x>>
Hues == JsonDeserialize(IOEnv.GRID_DIR \o "/hues.json")      \* the hues (any integers) of this run
Reds == JsonDeserialize(IOEnv.GRID_DIR \o "/reds.json")
Init == \/ kind = "hsl" /\ x \in {Hues[j] : j \in 1..Len(Hues)}
        \/ kind = "hex" /\ x \in {Reds[j] : j \in 1..Len(Reds)}
Next == UNCHANGED vars
Spec == Init /\ [][Next]_vars
Chunk == JsonDeserialize(IOEnv.GRID_DIR \o "/" \o kind \o "_" \o ToString(x) \o ".json")
Unpack(p) == <<p \div 65536, (p \div 256) % 256, p % 256>>
\* hsl chunk: [S][L] for integer percents 0..100 (tenths = 10 * percent)
HslPlaneOk == kind = "hsl" =>
  LET o == Chunk IN \A s \in 0..100 : \A l \in 0..100 :
     o[s + 1][l + 1] >= 0 /\ Admits(HslToRgb(x, 10 * s, 10 * l), Unpack(o[s + 1][l + 1]))
\* hex chunk: [G][B]: "#rrggbb" must parse to exactly its bytes
HexPlaneOk == kind = "hex" =>
  LET o == Chunk IN \A g \in 0..255 : \A b \in 0..255 : o[g + 1][b + 1] = x * 65536 + g * 256 + b
====
