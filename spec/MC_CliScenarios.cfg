SPECIFICATION ScenSpec
CONSTANTS NR = 3
INVARIANT Partition
INVARIANT CardMeetsTarget
INVARIANT FailedUnchanged
INVARIANT ReportedIsWrittenModuloKnown
CHECK_DEADLOCK FALSE
