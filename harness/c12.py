"""C12 - the bulk API is exactly a map of the single-pair API, in order.

Api.tla: BulkLength, BulkIsMap (against memo = single-pair answers), BulkInvalid; TrApi.tla adds the status clause
(status = lower-case Label(Level(read-back of the returned colour, background, size)) from Wcag.tla).
Spec -> code: TLC enumerates every list of <= 3 entries over 8 entry kinds x 3 arities from BulkLists.tla (longer lists are
sampled); each abstract list is bound to concrete colours; the behaviour = single-pair calls on fresh objects for every entry,
the bulk call, a bulk call with the other very_readable setting, a bulk call on the reversed list, singles again.
"""
import os, sys, random, json
sys.path.insert(0, os.path.dirname(os.path.abspath(__file__)))
import vlib, apirec, pairs, refs

PID = "C12"
E = apirec.enc
_HAIR = []


def concrete(kind, rnd):
    if kind == "pass":
        a, b = pairs.near_threshold(rnd, 7.0, (-0.8, -0.05))
        return rnd.choice([(a, b), (pairs.hexs(a), pairs.hexs(b))])
    if kind == "fixable":
        a, b = pairs.near_threshold(rnd, rnd.choice((4.5, 7.0)), (0.02, 0.25))
        return rnd.choice([(a, b), (pairs.hexs(a), pairs.hexs(b)), (f"rgb({a[0]}, {a[1]}, {a[2]})", b), (list(a), list(b)), (a, list(b)),
                           (tuple(str(v) for v in a), b),
                           # informal spellings the parser accepts (whatever the pair API reads, the bulk API reads the same way)
                           (f"({a[0]};{a[1]};{a[2]})", b), (f"({a[0]}\t{a[1]}\t{a[2]})", pairs.hexs(b)), (f"({a[0]}/{a[1]}/{a[2]})", b),
                           (f"{a[0]}, {a[1]}, {a[2]}", f"({b[0]}, {b[1]}, {b[2]})"), (f"{a[0]} {a[1]} {a[2]}", b), (f"({a[0]},{a[1]},{a[2]})", f"{b[0]};{b[1]};{b[2]}"),
                           (f"rgb({a[0]} {a[1]} {a[2]})", f"RGB( {b[0]} , {b[1]} , {b[2]} )")])
    if kind == "between":       # between the large-text and normal-text requirement: the size flag decides
        a, b = pairs.near_threshold(rnd, 4.5, (0.05, 0.3))
        return (pairs.hexs(a), pairs.hexs(b))
    if kind == "unfixable":
        a, b = pairs.near_background(rnd)
        return (a, b)
    if kind == "badtext":
        return (rnd.choice(["notacolor", (300, 0, 0), "rgb(1,2", "", None, "#12", (1, 2), "#777777;", "grey ;", "rgb(119, 119, 119);",
                            "#777 !important", "white;", ("", "10", "10"), ("255", "255", " "), [1, 2, ""], ("10", "10", "10", ""),
                            ("\t", "0", "0"), [], (None, None, None), ("1", "2"),
                            # sequences holding something that is no component at all - and cannot be copied, or compares by identity
                            (apirec.Stub("nocopy"), 0, 0), [apirec.Stub("nocopy"), 1, 2], (apirec.Stub("ident"), 0, 0), [10, apirec.Stub("ident"), 10],
                            (apirec.Stub("nocopy"), "x")]), "#ffffff")
    if kind == "badbg":
        return ("#123456", rnd.choice(["nope", (0, 0, -1), "hsl(", "##", ("255", "255", ""), [" ", 1, 1], ("", "", "")]))
    if kind == "translucent":
        a, b = pairs.near_threshold(rnd, 4.5, (0.0, 0.4))
        return rnd.choice([(f"rgba({a[0]}, {a[1]}, {a[2]}, 0.8)", b), ((a[0], a[1], a[2], 0.6), pairs.hexs(b)), ([a[0], a[1], a[2], 0.6], list(b)),
                           (pairs.hexs(a), f"rgba({b[0]}, {b[1]}, {b[2]}, 0.5)")])
    if kind == "extreme":      # text that cannot move further away from its background; label often between the levels
        g = rnd.randrange(70, 190)
        a = rnd.choice([(0, 0, 0), (255, 255, 255)])
        return rnd.choice([(a, (g, g, g)), (pairs.hexs(a), pairs.hexs((g, g, g)))])
    if kind == "digits":       # hex without '#', written with decimal digits <= 255: the ENTRY (text, bg, flag) is itself a valid colour tuple
        d = lambda: rnd.choice(["123", "255", "012", "200", "111", "099", "250", "135"])
        return (d(), d())
    if kind == "twinA":        # == but different colours: int channels are 0..255, floats in [0,1] are normalised
        return rnd.choice([((1, 1, 1), (1.0, 1.0, 1.0)), ((1, 1, 1), "#ffffff"), ((120, 1, 1), (255, 255, 255)), ((0, 1, 0), (1.0, 1.0, 1.0))])
    if kind == "twinB":
        return rnd.choice([((1.0, 1.0, 1.0), (1, 1, 1)), ((1.0, 1.0, 1.0), "#000000"), ((120.0, 1.0, 1.0), (0, 0, 0)), ((0.0, 1.0, 0.0), (1, 1, 1)),
                           ((True, True, True), (1.0, 1.0, 1.0))])
    if kind == "hairres":
        if _HAIR:
            t_, b_, lg_, vr_, m_ = rnd.choice(_HAIR)
            return rnd.choice([(t_, b_), (pairs.hexs(t_), pairs.hexs(b_)), (f"rgb({t_[0]}, {t_[1]}, {t_[2]})", b_)])
        a, b = pairs.hairline(rnd, 4.5)
        return (a, b)
    if kind == "hsl":
        a, b = pairs.near_threshold(rnd, 4.5, (0.0, 0.3))
        return (pairs.spell(a, "hslfn", rnd), b)
    raise ValueError(kind)


def _beh(job):
    lst, mode, vr, seed = job
    rnd = random.Random(seed)
    ents = []
    for kind, arity in lst:
        t, b = concrete(kind, rnd)
        ents.append((t, b) if arity == 2 else (t, b, arity == 3))
    if len(ents) >= 2 and rnd.random() < 0.4:       # duplicates of concrete entries, too
        ents[-1] = ents[0] if len(ents[0]) == len(ents[-1]) else ents[-1]
    ops = []
    oid = 0

    def singles():
        nonlocal oid
        for e in ents:
            lg = e[2] if len(e) == 3 else False
            oid += 1
            ops.append(["new", oid, E(e[0]), E(e[1]), lg])
            ops.append(["fix", oid, mode, vr, False, False])
            ops.append(["fix", oid, mode, not vr, False, False])

    # the entries themselves are tuples or lists (both are "2- and 3-element entries")
    enc_list = [E(list(e)) if (seed + j) % 3 == 0 else [E(x) for x in e] for j, e in enumerate(ents)]
    singles()
    ops.append(["bulk", enc_list, mode, vr, False])
    ops.append(["bulk", enc_list, mode, not vr, False])
    ops.append(["bulk", list(reversed(enc_list)), mode, vr, False])
    ops.append(["bulk", enc_list, (mode + 1) % 3, vr, False])
    if seed % 3 == 0:
        # the report option must not change what is returned (the file goes to a scratch working directory)
        ops.append(["bulk", enc_list, mode, vr, True])
    singles()
    import tempfile, shutil
    cwd0 = os.getcwd()
    tmp = tempfile.mkdtemp(prefix="verif_c12_")
    try:
        os.chdir(tmp)
        import io, contextlib
        with contextlib.redirect_stdout(io.StringIO()):      # "Report generated: ..." lines are C17's business
            return apirec.run_ops(ops), ents
    finally:
        os.chdir(cwd0)
        shutil.rmtree(tmp, ignore_errors=True)


def main():
    t = vlib.tier()
    rnd = random.Random(vlib.seed() * 472882027 + 12)
    rep = vlib.Report(PID)
    rep.assumptions = ["TLC/SANY", "WCAG tables generator", "harness CSS reader for the status clause (calibrated in C07)"]
    rep.rule = ("all lists of <= 3 entries over {pass, fixable, between, unfixable, badtext, badbg, translucent, hsl} x arity {2, 3 large, 3 not large} "
                "as enumerated by TLC from BulkLists.tla (quick: seeded sample) plus sampled lists of 4-12 entries, x mode x very_readable; "
                "distinct = distinct (abstract list, mode, very_readable)")
    rep.add_model("MC_Api(Depth=4)", vlib.check_model("MC_Api", "MC_Api.cfg", timeout=900), "BulkMatchesMemo, InvalidInert on the API state machine")
    global _HAIR
    _HAIR = pairs.hairline_results(rnd, 2500 if t == "quick" else 40000)
    rep.extra["pairs_whose_tuned_colour_lands_on_a_hairline"] = len(_HAIR)
    r, lists = vlib.tlc_enumerate("BulkLists", "MC_BulkLists.cfg", "lst")
    rep.add_model("BulkLists(MaxLen=3) input generator", r, "abstract bulk inputs replayed into the implementation")
    rep.extra["lists_enumerated_by_tlc"] = len(lists)
    n = 260 if t == "quick" else 7000
    chosen = [l for l in lists if len(l) <= 1] + rnd.sample([l for l in lists if len(l) >= 2], n)
    # lists that certainly contain hash-equal twins / hairline results
    twin = [l for l in lists if {"twinA", "twinB"} <= {e[0] for e in l}]
    hair = [l for l in lists if any(e[0] == "hairres" for e in l)]
    dig = [l for l in lists if len(l) >= 2 and l[0][0] == "digits" and l[1][0] == "digits" and l[0][1] != 2 and l[1][1] != 2]
    chosen += rnd.sample(dig, min(len(dig), 25 if t == "quick" else 300))
    chosen += rnd.sample(twin, min(len(twin), 40 if t == "quick" else 600)) + rnd.sample(hair, min(len(hair), 60 if t == "quick" else 900))
    kinds = ["pass", "fixable", "between", "unfixable", "badtext", "badbg", "translucent", "hsl", "extreme", "twinA", "twinB", "hairres", "digits"]
    for _ in range(30 if t == "quick" else 600):     # longer lists
        chosen.append(tuple((rnd.choice(kinds), rnd.choice((2, 3, 4))) for _ in range(rnd.randrange(4, 13))))
    # long lists (130 and 1100-1300 entries, mostly cheap already-readable ones): position i of the result is entry i's answer
    cheap = ["pass", "pass", "pass", "pass", "extreme", "between", "badtext", "pass", "fixable", "digits"]
    for ln in ([130, 1100] if t == "quick" else [130, 257, 1001, 1300, 2100]):
        chosen.append(tuple((rnd.choice(cheap), rnd.choice((2, 3, 4))) for _ in range(ln)))
    jobs = [(l, k % 3, bool((k // 3) & 1), rnd.randrange(1 << 30)) for k, l in enumerate(chosen)]
    res = vlib.pool_map(_beh, jobs, chunksize=4)
    keys, cols = apirec.Interner(), apirec.Interner()
    traces = [apirec.to_events(raw, keys, cols) for raw, _ in res]
    agg = vlib.validate_traces("TrApi", traces, min_per_shard=30)
    rep.add_traces(agg, len(traces))
    rep.evaluations = sum(1 for tr in traces for e in tr if e["op"] == "bulk")
    rep.nontrivial = len({(repr(j[0]), j[1], j[2]) for j in jobs})
    rep.sample({"abstract_list": repr(jobs[5][0]), "concrete": repr(res[5][1]), "bulk_event": next(e for e in traces[5] if e["op"] == "bulk")})
    for bad in agg["bad"]:
        if bad["incon"]:
            rep.inconclusive += 1
        mine = [f for f in bad["fails"] if f.startswith("C12_") or f == "C14_BulkRaised"]
        if mine:
            tid = bad["tid"]
            rep.violation("/".join(mine), {"abstract_list": repr(jobs[tid][0]), "entries": repr(res[tid][1]), "mode": jobs[tid][1],
                          "very_readable": jobs[tid][2], "behaviour": traces[tid],
                          "reproduce": f"make_readable_bulk({res[tid][1]!r}, mode={jobs[tid][1]}, very_readable={jobs[tid][2]}) vs ColorPair(...).make_readable per entry"})
    return rep.finish()


if __name__ == "__main__":
    vlib.main_wrapper(main)
