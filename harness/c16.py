"""C16 - see DESIGN.md section 5; shared pair-trace driver in pairchecks.py, trace spec TrPair.tla."""
import os, sys
sys.path.insert(0, os.path.dirname(os.path.abspath(__file__)))
import vlib, pairchecks

if __name__ == "__main__":
    vlib.main_wrapper(lambda: pairchecks.run("C16"))
