"""C14 - invalid colour input is reported, never raised.

Api.tla: Construct has exactly two outcomes (ConstructOk); on an invalid pair is_readable = 'Not Readable'
(ReadableOnInvalid), make_readable = (None, False) (FixOnInvalid), bulk reports the entry and carries on
(BulkInvalid / BulkLength / BulkIsMap).  The harness enumerates input shapes; TrApi.tla judges each recorded operation.
"""
import os, sys, random, itertools, json
sys.path.insert(0, os.path.dirname(os.path.abspath(__file__)))
import vlib, apirec

PID = "C14"
NAN, INF = float("nan"), float("inf")
ELEMS = [0, 255, 128, 256, -1, 1000, 0.0, 0.5, 1.0, 1.5, 127.6, 255.0, 300.0, NAN, INF, -INF, -0.5, 1e308, "128", "50%", "abc", "",
         " ", "1e3", "-5", "999%", "inf%", "1e999%", "-inf%", "nan%", "9" * 400 + "%", "100.3%", "-0.3%", None, True, False,
         # numbers and number-like strings that Python's own conversions treat specially
         10 ** 30, -0.0, "1_0", "0x10", " 12 ", "\n", "\u0661\u0662", "\ud800", "1e-400", "+.5", "5."]
TOKENS = ["rgb(", "rgba(", "hsl(", "hsla(", ")", ",", "/", "%", "-", "+", ".", "e", "1", "255", "0.5", "1e309", "deg", "var(--x)",
          "inherit", "transparent", "currentcolor", "٣", " ", "#", "(", "fff", "red", "nan", "inf", "²", "\x00", "inf%", "1e999%", "9" * 330, "100.3%", "-0.3%", "100.2%", "255.4", "360.0001", "1.001",
          # every kind of white space (a value may be broken over lines), and text that means something to a formatting routine
          "\n", "\r\n", "\t", "\f", "\v", "{", "}", "{}", "{0}", "{1}", "{color}", "{0.hex}", "${fg}", "%s", "%(x)s", "%d", "%", "\\", "\\n", "\ud800", "\udfff", "\U0001f3a8", "\u200b", "\ufeff"]
VALID_CSS = ["#ff0000", "#abc", "rgb(1, 2, 3)", "rgba(1, 2, 3, 0.5)", "hsl(120, 50%, 50%)", "hsla(120, 50%, 50%, 0.3)", "red",
             "rgb(10%, 20%, 30%)", "255, 0, 0", "(1,2,3)"]


def mutate(s, rnd):
    ops = rnd.randrange(6)
    if ops == 0 and s:
        k = rnd.randrange(len(s)); return s[:k] + s[k + 1:]
    if ops == 1:
        k = rnd.randrange(len(s) + 1); return s[:k] + rnd.choice(TOKENS) + s[k:]
    if ops == 2 and s:
        return s[:rnd.randrange(len(s))]
    if ops == 3 and s:
        k = rnd.randrange(len(s)); return s[:k] + rnd.choice("()%,./-+e \t#x") + s[k + 1:]
    if ops == 4:
        return s + rnd.choice(TOKENS)
    return s.replace(rnd.choice("0123456789,()"), rnd.choice(["", "  ", "%", "nan", "-", "1e999"]), 1)


def inputs(t, rnd):
    vals = []
    full = 3 if t == "quick" else 4
    for n in range(0, full + 1):
        for combo in itertools.product(range(len(ELEMS)), repeat=n):
            if n == full and t == "thorough" and rnd.random() > 0.35:
                continue
            seq = [ELEMS[i] for i in combo]
            vals.append(tuple(seq) if (len(vals) & 1) else list(seq))
    for n, cnt in ((4, 25000), (5, 8000), (6, 1500)) if t == "quick" else ((5, 150000), (6, 20000), (8, 2000)):
        for _ in range(cnt):
            seq = [rnd.choice(ELEMS) for _ in range(n)]
            vals.append(tuple(seq) if rnd.random() < 0.5 else list(seq))
    # strings: token sequences
    fullt = 2 if t == "quick" else 3
    for n in range(0, fullt + 1):
        for combo in itertools.product(TOKENS, repeat=n):
            vals.append("".join(combo))
    for n, cnt in ((3, 12000), (4, 12000), (6, 3000)) if t == "quick" else ((4, 250000), (6, 40000), (9, 5000)):
        for _ in range(cnt):
            vals.append("".join(rnd.choice(TOKENS) for _ in range(n)))
    # numbers a hair outside (and inside) every documented range, in every functional form
    hair = ["100.3%", "100.2%", "100.39%", "100.4%", "-0.3%", "-0.2%", "-0.39%", "100%", "0%", "255.4", "255.5", "255.6", "-0.4", "-0.6",
            "256", "360.0001", "-0.0001", "1.001", "1.0001", "-0.001", "inf", "-inf", "nan", "1e400", "1e-400", "9" * 330, "9" * 330 + "%",
            # values that a modulo / comparison treats specially: a hair below zero, negative zero, denormals, a hair below a bound
            "-1e-20", "-1e-300", "-0.0", "5e-324", "-5e-324", "359.99999999999997", "0.99999999999999994", "254.99999999999997"]
    for fn, arity in (("rgb", 3), ("rgba", 4), ("hsl", 3), ("hsla", 4)):
        base = {"rgb": ["10", "20", "30"], "rgba": ["10", "20", "30", "0.5"], "hsl": ["120", "50%", "50%"], "hsla": ["120", "50%", "50%", "0.5"]}[fn]
        for pos in range(arity):
            for h in hair:
                a = list(base)
                a[pos] = h
                vals.append(f"{fn}({', '.join(a)})")
                if pos < 3 and fn in ("rgb", "rgba"):
                    b = [x + "%" if not x.endswith("%") and k2 < 3 else x for k2, x in enumerate(base)]
                    b[pos] = h if h.endswith("%") else h + "%"
                    vals.append(f"{fn}({', '.join(b)})")
    for h in hair:
        for pos in range(3):
            for cont in (tuple, list):
                a = ["10", "20", "30"]; a[pos] = h
                vals.append(cont(a))
                a4 = ["10", "20", "30", "0.5"]; a4[pos] = h
                vals.append(cont(a4))
    # '#' followed by characters int(x, 16) / float() tolerate but CSS does not: signs, blanks, underscores, prefixes
    hx = ["1", "f", "A", "-", "+", " ", "_", "x", "g", "0"]
    for n in (3, 6):
        for _ in range(4000 if t == "quick" else 60000):
            body = "".join(rnd.choice(hx) for _ in range(n))
            vals.append("#" + body)
            if rnd.random() < 0.2:
                vals.append(body)
    # strings that reach the "unrecognised" fallback (no comma, no blank, no known prefix) with replacement fields in them
    for body in ("{}", "{0}", "{1}", "{color}", "{0.hex}", "{!r}", "{:>10}", "${fg}", "@{brand}", "%s", "%(name)s", "%d%%", "{{x}}", "{", "}"):
        for pre, post in (("", ""), ("colour-", "-dark"), ("var(--", ")"), ("x", "y")):
            vals.append(pre + body + post)
    # very long inputs: thousands of nested brackets / quotes around a valid value, and long runs of one character
    for depth in (200, 1500, 5000):
        for inner in ("255, 0, 0", "#fff", "red", ""):
            vals.append("(" * depth + inner + ")" * depth)
            vals.append("\"" * depth + inner + "\"" * depth)
            vals.append("rgb" + "(" * depth + "1, 2, 3" + ")" * depth)
    vals += [" " * 100000 + "#fff", "#" + "f" * 100000, "rgb(" + "1," * 50000 + "1)", "a" * 200000, "1" * 100000, "hsl(" + "9" * 5000 + ", 50%, 50%)"]
    # informal number lists written the way a programmer would (zero padding, trailing comma, other literals): they are strings to
    # be READ, never source code to be evaluated
    vals += ["(010, 020, 030)", "( 007 , 8 , 9 )", "010, 020, 030", "[1, 2, 3]", "(1, 2, 3,)", "(0x10, 1, 2)", "(1_0, 2, 3)", "(1e1, 2, 3)", "(0o7, 1, 2)",
             "(1, 2, 3) if 1 else 0", "(__import__('os').getcwd(), 1, 2)", "(1,\n2,\n3)", "(True, False, 1)", "(None, 1, 2)", "(1+1, 2, 3)", "((1), (2), (3))",
             "(08, 09, 010)", "(0, 0, 0)", "(00, 00, 00)", "(1.0, 2.0, 3.0)", "(١, ٢, ٣)"]
    # colour syntax of later CSS levels (relative colours, colour spaces, mixing, maths, keywords inside the functions): strings to
    # be refused or read - never a reason to raise
    modern = ["rgb(from #336699 r g b)", "hsl(from red h s l)", "hsla(from currentcolor h s l / .5)", "rgba( from  #fff r g b / 50%)",
              "RGB(FROM red r g b)", "rgb(from\tred r g b)", "hsl(from var(--c) calc(h + 30) s l)", "color-mix(in srgb, red, blue)",
              "color-mix(in oklch, #fff 30%, #000)", "color(display-p3 1 0 0)", "color(srgb 0.2 0.4 0.6 / 0.5)", "lab(50% 40 59)",
              "lch(50% 70 30)", "oklab(0.6 0.1 0.1)", "oklch(60% 0.15 50)", "hwb(120 10% 20%)", "light-dark(#000, #fff)",
              "rgb(calc(1 + 2), 0, 0)", "rgb(var(--r), 0, 0)", "rgb(none none none)", "hsl(none 50% 50%)", "rgb(min(10, 20) 0 0)",
              "rgb(1 2 3 / none)", "hsl(120deg none none / 1)", "device-cmyk(0 81% 81% 30%)", "contrast-color(#777)", "rgb(env(x), 1, 2)",
              "rgba(attr(data-c), 0, 0, 1)", "hsl(0.5turn 50% 50%)", "rgb(100% 0% 0% / 50%)", "AccentColor", "canvastext", "-moz-default-color"]
    vals += modern + [m_.upper() for m_ in modern[:8]] + [" " + m_ + " " for m_ in modern[:6]]
    vals += ["#-1-2-3", "#+1+2+3", "# 1 2 3", "#1_2_3_", "#0x0x0x", "#-f-f-f", "#- - - ", "#١٢٣", "#１２３", "#ⅠⅡⅢ"]
    # keywords spelled with characters that only SOME case mappings fold to ASCII (long s, ligatures, Kelvin sign, dotless i ...)
    folds = [("s", "\u017f"), ("fi", "\ufb01"), ("fl", "\ufb02"), ("ff", "\ufb00"), ("st", "\ufb06"), ("k", "\u212a"), ("i", "\u0131"), ("I", "\u0130"),
             ("a", "\uff41"), ("ss", "\u00df"), ("a", "\u00e5")]
    for name in sorted(__import__("refs")._named()):
        for a, b in folds:
            if a in name:
                vals.append(name.replace(a, b, 1))
                vals.append(name.upper().replace(a.upper(), b, 1))
    # function notation with every kind of function name - colour functions and the ones a stylesheet value can hold instead
    # (var, url, calc, env, attr, newer colour functions) - in every letter case (CSS function names are case-insensitive),
    # complete, empty, unclosed and with stray blanks
    fnames = ["rgb", "rgba", "hsl", "hsla", "var", "url", "calc", "env", "attr", "color", "lab", "lch", "hwb", "oklch", "color-mix",
              "linear-gradient", "min", "clamp", "-webkit-gradient", "light-dark"]
    bodies = ["10,\n20, 30", "10,\r\n 20,\t30", "\n1, 2, 3\n", "120,\n50%,\n50%", "{}", "{0}, {1}, {2}",
              "--x", "--x, #fff", "--Brand, #fff", "", " ", " --x ", "1, 2, 3", "1 2 3", "x.png", "\"a\"", "--x, var(--y)", "in srgb, red, blue",
              "120, 50%, 50%", "1, 2, 3, 0.5", "--"]
    for fnm in fnames:
        for cv in (fnm, fnm.upper(), fnm.capitalize(), fnm[0] + fnm[1:].upper(), "".join(ch.upper() if k_ % 2 else ch for k_, ch in enumerate(fnm))):
            for bd in bodies:
                vals.append(f"{cv}({bd})")
                if rnd.random() < 0.3:
                    vals.append(f"{cv}({bd}")
                    vals.append(f" {cv} ({bd})")
    for _ in range(15000 if t == "quick" else 300000):
        s = rnd.choice(VALID_CSS)
        for _ in range(rnd.randrange(1, 4)):
            s = mutate(s, rnd)
        vals.append(s)
    return vals


def _chunk(vals):
    ops = [["color", j + 1, apirec.enc(v)] for j, v in enumerate(vals)]
    return apirec.run_ops(ops)


def _pair_beh(job):
    bad, good_t, good_b, pos = job
    if pos == "text":
        t, b = bad, good_b
    elif pos == "bg":
        t, b = good_t, bad
    else:
        t, b = bad, bad
    ents = [[apirec.enc(good_t), apirec.enc(good_b)], [apirec.enc(t), apirec.enc(b), True], [apirec.enc("#000000"), apirec.enc("#ffffff")],
            [apirec.enc(t), apirec.enc(b)]]
    ops = [["new", 1, apirec.enc(t), apirec.enc(b), False], ["readable", 1], ["fix", 1, 1, False, False, False],
           ["fix", 1, 2, True, False, False], ["fix", 1, 0, False, False, False], ["fix", 1, 1, False, True, False],      # (the last one with show=True)
           ["new", 2, apirec.enc(good_t), apirec.enc(good_b), False], ["fix", 2, 1, False, False, False],
           ["new", 3, apirec.enc("#000000"), apirec.enc("#ffffff"), False], ["fix", 3, 1, False, False, False],
           ["bulk", ents, 1, False, False]]
    # whatever the preview prints goes to an ordinary strict UTF-8 text stream (what a terminal or a pipe is)
    import io, contextlib
    sink = io.TextIOWrapper(io.BytesIO(), encoding="utf-8", errors="strict")
    with contextlib.redirect_stdout(sink):
        return apirec.run_ops(ops)


def main():
    t = vlib.tier()
    rnd = random.Random(vlib.seed() * 86028121 + 14)
    rep = vlib.Report(PID)
    rep.assumptions = ["TLC/SANY"]
    rep.rule = ("Color(x) for every sequence (tuple and list) of length <= 3 (thorough: 4, sampled) over 29 element classes, sampled longer "
                "ones; token strings over a 31-token near-miss alphabet, mutated valid CSS; pair-level follow-ups (is_readable, "
                "make_readable in 3 modes, bulk with the bad entry between good ones); distinct = distinct repr of the input")
    rep.add_model("MC_Api(Depth=4)", vlib.check_model("MC_Api", "MC_Api.cfg", timeout=900),
                  "API state machine: honest library never refused; InvalidInert, MemoAgreesWithLib, BulkMatchesMemo, QuietHistory")
    vals = inputs(t, rnd)
    B = 64
    chunks = [vals[i:i + B] for i in range(0, len(vals), B)]
    raws = vlib.pool_map(_chunk, chunks, chunksize=4)
    keys, cols = apirec.Interner(), apirec.Interner()
    traces = [apirec.to_events(r, keys, cols) for r in raws]
    n_invalid = sum(1 for r in raws for e in r if e["raised"] == "" and not e["valid"])
    # pair-level follow-ups on a sample of inputs the library calls invalid (plus some it accepts)
    invalid_vals = [v for ch, r in zip(chunks, raws) for v, e in zip(ch, r) if e["raised"] != "" or not e["valid"]]
    sample = rnd.sample(invalid_vals, min(len(invalid_vals), 600 if t == "quick" else 12000)) + rnd.sample(vals, 100)
    # inputs with characters a console encoding may refuse (lone surrogates, NUL, non-BMP): whatever is said about them must not raise
    odd = [v for v in invalid_vals if isinstance(v, str) and any(ch in v for ch in ("\ud800", "\udfff", "\x00", "\U0001f3a8"))]
    sample += rnd.sample(odd, min(len(odd), 60 if t == "quick" else 600))
    jobs = [(v, "#767676", "#ffffff", ("text", "bg", "both")[k % 3]) for k, v in enumerate(sample)]
    praws = vlib.pool_map(_pair_beh, jobs, chunksize=8)
    ptraces = [apirec.to_events(r, keys, cols) for r in praws]
    alltr = traces + ptraces
    agg = vlib.validate_traces("TrApi", alltr)
    rep.add_traces(agg, len(alltr))
    rep.evaluations = len(vals) + len(jobs)
    rep.nontrivial = len({repr(v) for v in vals})
    rep.extra["inputs_the_library_calls_invalid"] = n_invalid
    rep.extra["pair_level_histories"] = len(jobs)
    rep.sample({"input": repr(vals[37]), "event": traces[0][37 % len(traces[0])]})
    rep.sample({"pair_history": ptraces[0][:4]})
    mine_f = lambda f: f.startswith(("C14_", "C12_InvalidEntry", "C12_OneResult"))
    # constructions: itemise the offending inputs (events of a batch are independent)
    cons = dict(agg, bad=[b for b in agg["bad"] if b["tid"] < len(traces)])
    hits, more = vlib.pinpoint("TrApi", alltr, cons, want=mine_f)
    for tid, j, fl in hits:
        v = chunks[tid][j]
        rep.violation("/".join(fl), {"input": repr(v), "event": alltr[tid][j], "reproduce": f"from cm_colors import Color; Color({v!r})"})
    if more:
        print(f"NOTE: {more} further failing batches of constructions not itemised")
    for bad in agg["bad"]:
        mine = [f for f in bad["fails"] if mine_f(f)]
        if mine and bad["tid"] >= len(traces):
            job = jobs[bad["tid"] - len(traces)]
            rep.violation("/".join(mine), {"input": repr(job[0]), "position": job[3], "history": alltr[bad["tid"]],
                          "reproduce": f"ColorPair with {job[0]!r} as {job[3]} (other side #767676/#ffffff): is_readable, make_readable, make_readable_bulk"})
    return rep.finish()


if __name__ == "__main__":
    vlib.main_wrapper(main)
