SPECIFICATION Spec
CONSTANTS Depth = 4
INVARIANT MemoAgreesWithLib
INVARIANT QuietHistory
INVARIANT FilesOnlyDocumented
INVARIANT BulkMatchesMemo
INVARIANT InvalidInert
INVARIANT NoRefusal
CHECK_DEADLOCK FALSE
