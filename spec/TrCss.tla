---- MODULE TrCss ----
(***************************************************************************)
(* C07 / C13 (value level): observations of the library's colour parser on *)
(* CSS spellings built by the harness from abstract values; TLC computes   *)
(* the colour CSS defines from the abstract value (CssColor.tla) and       *)
(* judges the observation.  "R_" clauses calibrate the harness' own CSS    *)
(* reader against the same definition (machinery, not a property).         *)
(***************************************************************************)
EXTENDS CssColor, TraceKit

VARIABLES tid, i, fails, incon, nt
vars == <<tid, i, fails, incon, nt>>
Init == tid \in 1..NTraces /\ i = 1 /\ fails = {} /\ incon = {} /\ nt = 0
Ev == Traces[tid][i]

Expected(e) ==
  CASE e.k = "hex3" -> Hex3(e.d)
    [] e.k = "hex6" -> Exactly(<<HexByte(e.d[1], e.d[2]), HexByte(e.d[3], e.d[4]), HexByte(e.d[5], e.d[6])>>)
    [] e.k = "named" -> Named(e.name)
    [] e.k = "rgbint" -> Exactly(e.v)
    [] e.k = "tuple" -> Exactly(e.v)
    [] e.k = "rgbpct" -> RgbPct(e.p)
    [] e.k = "rgbpct5" -> RgbPct5(e.p)
    [] e.k = "hsl" -> HslToRgb(e.h, e.s, e.l)

ObsOk(e) == e.obs # <<>> /\ IsRgb(e.obs)

\* hsl() with more decimals than the grid (hue between two integer degrees, S and L between two tenths of a percent):
\* every channel is affine in each of H, S, L between neighbouring grid points, so the exact value lies between the
\* values at the 8 corners; admissible = any byte between the smallest and the largest admissible corner value.
CornerVals(e, c) == UNION {HslToRgb(h, s, l)[c] : h \in {e.hl, e.hh}, s \in {e.sl, e.sh}, l \in {e.ll, e.lh}}
Lo(S) == CHOOSE x \in S : \A y \in S : x <= y
Hi(S) == CHOOSE x \in S : \A y \in S : x >= y
FineFails(e) ==
  IF ~ObsOk(e) THEN {"C07_Rejected_" \o e.k}
  ELSE IF e.k = "hslx"
       THEN (IF \A c \in 1..3 : e.obs[c] >= Lo(CornerVals(e, c)) /\ e.obs[c] <= Hi(CornerVals(e, c)) THEN {} ELSE {"C07_Value_hslx"})
       ELSE \* hslax: composited; the foreground lies within the corner range, allow the blend of either end (+1.5)
            (IF \A c \in 1..3 :
                  LET flo == Lo(CornerVals(e, c))  fhi == Hi(CornerVals(e, c))
                      blo == flo * e.an + e.bg[c] * (e.ad - e.an)
                      bhi == fhi * e.an + e.bg[c] * (e.ad - e.an)
                  IN 2 * e.obs[c] * e.ad >= 2 * Min(blo, bhi) - 3 * e.ad /\ 2 * e.obs[c] * e.ad <= 2 * Max(blo, bhi) + 3 * e.ad
             THEN {} ELSE {"C07_Composite_hslax"})

OpaqueFails(e) ==
  IF ~ObsOk(e) THEN {"C07_Rejected_" \o e.k}
  ELSE IF Admits(Expected(e), e.obs) THEN {} ELSE {"C07_Value_" \o e.k}

\* translucent: foreground fg (rgb ints, or hsl), alpha an/ad, background bg (opaque 8-bit)
TranslucentFails(e) ==
  IF ~ObsOk(e) THEN {"C07_Rejected_" \o e.k}
  ELSE IF e.k = "rgba"
       THEN (IF WithinBlend(e.obs, e.v, e.an, e.ad, e.bg) THEN {} ELSE {"C07_Composite_rgba"})
       ELSE (IF WithinBlendMilli(e.obs, HslMilli(e.h, e.s, e.l), e.an, e.ad, e.bg) THEN {} ELSE {"C07_Composite_hsla"})
     \cup (IF e.an = e.ad /\ e.k = "rgba" /\ e.obs # e.v THEN {"C07_AlphaOne"} ELSE {})
     \cup (IF e.an = e.ad /\ e.k = "hsla" /\ ~Admits(HslToRgb(e.h, e.s, e.l), e.obs) THEN {"C07_AlphaOne"} ELSE {})

\* calibration of the harness CSS reader: its admissible sets (as <<lo, hi>> per channel) equal the spec's
RefFails(e) ==
  LET x == Expected([e EXCEPT !.k = e.of])
  IN IF \A c \in 1..3 : x[c] = (e.lo[c])..(e.hi[c]) THEN {} ELSE {"R_CssRefCalibration_" \o e.of}

Observe ==
  /\ i <= Len(Traces[tid])
  /\ fails' = fails \cup (CASE Ev.k \in {"rgba", "hsla"} -> TranslucentFails(Ev)
                            [] Ev.k \in {"hslx", "hslax"} -> FineFails(Ev)
                            [] Ev.k = "ref" -> RefFails(Ev)
                            [] OTHER -> OpaqueFails(Ev))
  /\ nt' = nt + 1
  /\ i' = i + 1 /\ UNCHANGED <<tid, incon>>
Finish == /\ i = Len(Traces[tid]) + 1 /\ KitFinish(tid, fails, incon) /\ KitCount("observations", nt)
          /\ i' = i + 1 /\ UNCHANGED <<tid, fails, incon, nt>>
Next == Observe \/ Finish
Spec == Init /\ [][Next]_vars
====
