\* regression: the direction rule before commit "fix: lightness search moves the text away from the
\* background" - TLC must report FindsWitness violated (text 1, background 2, search goes up)
SPECIFICATION Spec
CONSTANTS N = 8
          K = 5
          AwayDirection = FALSE
          TrackPassing = TRUE
INVARIANT Contract
INVARIANT FindsWitness
CHECK_DEADLOCK FALSE
