SPECIFICATION Spec
CONSTANTS Spells = {"hex6", "hex3", "hexnohash", "hexupper", "rgbfn", "rgbpct", "hslfn", "named", "tuple", "list", "rgbafn", "hslafn", "rgbatuple"}
          Outcomes = {"unchanged", "fixed", "failed"}
CHECK_DEADLOCK FALSE
