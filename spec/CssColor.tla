---- MODULE CssColor ----
(***************************************************************************)
(* CSS Color Level 3 value semantics in exact integer arithmetic: the      *)
(* DEFINITION the library's parser is held to (C07), and the compositing   *)
(* rule of C13.  A channel value is a SET of admissible 8-bit values: one  *)
(* value, or both neighbours when the exact value lies exactly half way    *)
(* (CSS does not fix the tie).                                             *)
(***************************************************************************)
EXTENDS Integers, Sequences, Fixed, CssNamed

\* ---- hex
Hex3(d) == <<{17 * d[1]}, {17 * d[2]}, {17 * d[3]}>>          \* #rgb: each digit doubled
HexByte(hi, lo) == 16 * hi + lo
Exactly(c) == <<{c[1]}, {c[2]}, {c[3]}>>
Named(n) == Exactly(NamedColour[n])
IsNamed(n) == n \in DOMAIN NamedColour

\* ---- rgb(): integers are themselves; percentages in tenths of a percent (0..1000)
PctChan(p10) == RoundHalfSet(p10 * 255, 1000)
RgbPct(p) == <<PctChan(p[1]), PctChan(p[2]), PctChan(p[3])>>
\* percentages with five decimals (N = percent * 10^5, 0..10^7): the channel is N * 255 / 10^7 = N * 51 / (2 * 10^6);
\* N * 51 <= 5.1 * 10^8 keeps the nearest-byte decision exact in 32 bits (values a hair off a rounding tie are decided)
PctChan5(n) == RoundHalfSet(n * 51, 2000000)
RgbPct5(p) == <<PctChan5(p[1]), PctChan5(p[2]), PctChan5(p[3])>>

\* ---- hsl(): H any integer number of degrees, S and L in tenths of a percent (0..1000)
\* CSS Color 3, 4.2.4: m2 = l<=.5 ? l*(s+1) : l+s-l*s ; m1 = 2l-m2 ; units of 10^-6
M2(S, L) == IF L <= 500 THEN L * (1000 + S) ELSE L * 1000 + S * 1000 - L * S
M1(S, L) == 2 * L * 1000 - M2(S, L)
\* channel value for hue offset hd (degrees in 0..359), units of 1/(60 * 10^6)
HueV(m1, m2, hd) ==
  IF hd < 60 THEN m1 * 60 + (m2 - m1) * hd
  ELSE IF hd < 180 THEN m2 * 60
  ELSE IF hd < 240 THEN m1 * 60 + (m2 - m1) * (240 - hd)
  ELSE m1 * 60
Mod360(h) == ((h % 360) + 360) % 360
\* 255 * V / (60 * 10^6) = 17 * V / (4 * 10^6); 17 * V <= 1.02 * 10^9 < 2^31
ChanOf(H, S, L, off) == RoundHalfSet(17 * HueV(M1(S, L), M2(S, L), Mod360(H + off)), 4000000)
HslToRgb(H, S, L) == <<ChanOf(H, S, L, 120), ChanOf(H, S, L, 0), ChanOf(H, S, L, -120)>>
\* the exact (unrounded) channel in thousandths of an 8-bit unit, floor; used for compositing
ChanMilli(H, S, L, off) == (17 * HueV(M1(S, L), M2(S, L), Mod360(H + off))) \div 4000
HslMilli(H, S, L) == <<ChanMilli(H, S, L, 120), ChanMilli(H, S, L, 0), ChanMilli(H, S, L, -120)>>

Admits(set3, c) == c[1] \in set3[1] /\ c[2] \in set3[2] /\ c[3] \in set3[3]

\* ---- source-over compositing, alpha = an/ad (0 <= an <= ad <= 1000)
\* |obs - (fg*a + bg*(1-a))| <= 1.5 per channel, cross-multiplied
WithinBlend(obs, fg, an, ad, bg) ==
  \A k \in 1..3 : 2 * Abs(obs[k] * ad - (fg[k] * an + bg[k] * (ad - an))) <= 3 * ad
\* same with the foreground in thousandths (exact hsl), 1/1000 slack for the floor
WithinBlendMilli(obs, fgm, an, ad, bg) ==
  \A k \in 1..3 : Abs(obs[k] * 1000 * ad - (fgm[k] * an + bg[k] * 1000 * (ad - an))) <= 1500 * ad + 1000
Over(fg, an, ad, bg) == \* the set of admissible composites (used to enumerate expectations)
  [k \in 1..3 |-> {v \in 0..255 : 2 * Abs(v * ad - (fg[k] * an + bg[k] * (ad - an))) <= 3 * ad}]

\* ---- documented output format of make_readable per input spelling class (C06)
OutFormat(spell) ==
  CASE spell \in {"hex6", "hex3", "hexnohash", "hexupper"} -> "hex"
    [] spell \in {"rgbfn", "rgbpct", "rgbfnsub", "rgbfnopen"} -> "rgbfn"          \* (...sub: the same string as an instance of a str subclass)
    [] spell \in {"hslfn", "hslodd", "hslfnsub"} -> "hslfn"
    [] spell \in {"tuple", "list", "tuplesub", "listsub", "fractuple"} -> "tuple"      \* subclasses (named tuples ...) are tuples / lists
    [] spell \in {"named", "rgbafn", "hslafn", "rgbatuple", "rgba3fn"} -> "hex"       \* rgba3fn: rgba() written without the alpha
    [] OTHER -> "other"
====
