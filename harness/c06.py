"""C06 - output keeps the input's format and reads back as exactly the judged colour.

(1) format mapping + read-back through make_readable: every spelling class (incl. letter-case and whitespace variants
    of the functional notations) x outcomes {unchanged, fixed, failed} x modes; TrPair.tla judges
    shape = OutFormat(spelling) and css read-back = library read-back = the judged colour (the result of the same call
    on the same parsed colours given as int tuples).
(2) exhaustive formatter round trip: for whole red planes (thorough: all 2^24 colours) x {hex, rgb(), hsl(), tuple} the
    formatted value is read back by the library parser and by the CSS reference reader; FmtGrid.tla judges equality.
"""
import os, sys, random, json, shutil, re, time
sys.path.insert(0, os.path.dirname(os.path.abspath(__file__)))
import vlib, refs, pairs, pairchecks
from c07 import fn_variant

PID = "C06"


def spell_variant(c, kind, k, rnd):
    r, g, b = c
    if kind == "rgbfn":
        return fn_variant("rgb", [str(r), str(g), str(b)], k)
    if kind == "hslfn":
        h, s, l = pairs._rgb_to_hsl_int(c)
        return fn_variant("hsl", [str(h), f"{s}%", f"{l}%"], k)
    if kind == "rgbafn":
        return fn_variant("rgba", [str(r), str(g), str(b), rnd.choice(["0.5", "0.8", "1", "0.25", "50", "80"])], k)
    if kind == "hslafn":
        h, s, l = pairs._rgb_to_hsl_int(c)
        return fn_variant("hsla", [str(h), f"{s}%", f"{l}%", rnd.choice(["0.5", "0.85", "1"])], k)
    if kind == "named":
        name = rnd.choice(sorted(refs._named()))
        return [name, name.upper(), name.title(), " " + name + " "][k % 4]
    if kind == "hex3":
        c = tuple((v // 17) * 17 for v in c)
        s = "#%x%x%x" % tuple(v // 17 for v in c)
        return s.upper() if k % 2 else s
    if kind == "hex6" and k % 3 == 1:
        return "  " + pairs.hexs(c) + " "
    return pairs.spell(c, kind, rnd)


def specs_for(t, rnd):
    out = []
    per = 18 if t == "quick" else 700
    k = 0
    for kind in pairs.SPELLS:
        for j in range(per):
            mode = j % 3
            # aim for each outcome: unchanged (already readable), fixed (just below), failed (near background)
            want = ("unchanged", "fixed", "failed")[(j // 3) % 3]
            if want == "unchanged":
                a, b = pairs.near_threshold(rnd, 7.0, (-0.6, -0.05))
            elif want == "fixed":
                a, b = pairs.near_threshold(rnd, rnd.choice((3.0, 4.5, 7.0)), (0.0, 0.2))
            else:
                a, b = pairs.near_background(rnd)
            bgk = rnd.choice(["tuple", "hex6", "rgbfn"])
            out.append(dict(text=spell_variant(a, kind, k, rnd), bg=pairs.spell(b, bgk, rnd), large=bool(rnd.getrandbits(1)),
                            spell=kind, runs=[(mode, bool(j & 1)), ((mode + 1) % 3, not (j & 1))] + ([(mode, bool(j & 1), True)] if j % 3 == 0 else []),
                            ref=True, chain=False, mustParse=kind != "rgbfnopen"))      # (an unclosed function is accepted, not documented)
            k += 1
    # every one of the 4,096 three-digit hex colours as text (quick: one background each; thorough: four)
    for v in range(4096):
        c = ((v >> 8) * 17, ((v >> 4) & 15) * 17, (v & 15) * 17)
        for rep_ in range(1 if t == "quick" else 4):
            b = rnd.choice([(255, 255, 255), (238, 238, 238), (250, 250, 250), (17, 17, 17), (0, 0, 0), pairs.rand_colour(rnd)])
            s3 = "#%x%x%x" % (v >> 8, (v >> 4) & 15, v & 15)
            out.append(dict(text=s3 if (v + rep_) % 3 else s3[1:] if s3[1:].lower() not in refs._named() else s3, bg=b, large=bool(v & 1), spell="hex3",
                            runs=[(0, bool(v & 2))] if t == "quick" else [(0, False), (1, True)], ref=True, chain=False, mustParse=True))
    # three-digit GREY texts over a ladder of grey backgrounds: the repaired colours run through the grey axis, hitting values
    # with special digit patterns (both nibbles equal, low nibble zero, ...) that a shorthand heuristic would treat differently
    for g3 in range(16):
        for bgv in range(0, 256, 4 if t == "quick" else 1):
            s3 = "#%x%x%x" % (g3, g3, g3)
            out.append(dict(text=s3 if bgv % 8 else s3.upper(), bg=(bgv, bgv, bgv), large=bool(bgv & 4), spell="hex3",
                            runs=[(0, False), (1, True)] if bgv % 8 else [(2, False)], ref=True, chain=False))
    return out


_GRID = None


def _plane(r):
    vlib.use_repo()
    from cm_colors.core.color_parser import format_color, parse_color_to_rgb

    def pk(c):
        return c[0] * 65536 + c[1] * 256 + c[2]

    mats = {k: [] for k in ("hex_lib", "hex_css", "rgb_lib", "rgb_css", "hsl_lib", "hsl_css", "tup_lib", "tup_css")}
    for g in range(256):
        rows = {k: [] for k in mats}
        for b in range(256):
            c = (r, g, b)
            for fmt, key, want in (("hex", "hex", "hex"), ("rgb", "rgb", "rgbfn"), ("hsl", "hsl", "hslfn"), ("rgb_tuple", "tup", "tuple")):
                try:
                    v = format_color(c, fmt)
                except Exception:
                    rows[key + "_lib"].append(-2)
                    rows[key + "_css"].append(-2)
                    continue
                if pairs.shape_of(v) != want:
                    rows[key + "_lib"].append(-2)
                    rows[key + "_css"].append(-2)
                    continue
                try:
                    lb = parse_color_to_rgb(v)
                    lb = pk(lb) if pairs.is_rgb_ints(lb) else -1
                except Exception:
                    lb = -1
                if isinstance(v, tuple):
                    cs = pk(v)
                else:
                    rr = refs.css_read_opaque(v)
                    cs = pk(rr) if rr is not None else -1
                rows[key + "_lib"].append(lb)
                rows[key + "_css"].append(cs)
        for k2 in mats:
            mats[k2].append(rows[k2])
    with open(os.path.join(_GRID, f"fmt_{r}.json"), "w") as f:
        json.dump(mats, f, separators=(",", ":"))
    return r


def planes(rep, t, rnd):
    global _GRID
    _GRID = vlib.scratch("verif_fmt_")
    try:
        reds = list(range(256)) if t == "thorough" else sorted(set([0, 255] + rnd.sample(range(1, 255), 6)))
        json.dump(reds, open(os.path.join(_GRID, "reds.json"), "w"))
        vlib.pool_map(_plane, reds, chunksize=1)
        cfg = "SPECIFICATION Spec\nINVARIANT HexOk\nINVARIANT RgbOk\nINVARIANT HslOk\nINVARIANT TupleOk\nCHECK_DEADLOCK FALSE\n"
        res = vlib.run_tlc("FmtGrid", cfg, env={"GRID_DIR": _GRID}, workers=vlib.NCPU, heap="24g", timeout=7200,
                           extra=["-continue"], keep_stdout=400000)
        viol = re.findall(r"Invariant (\w+) is violated", res.stdout)
        if viol:
            planes_bad = sorted({int(x) for x in re.findall(r"^r = (\d+)|/\\ r = (\d+)", res.stdout, re.M) for x in x if x})
            # describe the first offending colours of the first offending planes (the verdict itself is TLC's)
            ex = []
            for r in planes_bad[:3]:
                m = json.load(open(os.path.join(_GRID, f"fmt_{r}.json")))
                for key, mat in m.items():
                    for g in range(256):
                        for b in range(256):
                            if mat[g][b] != r * 65536 + g * 256 + b and len(ex) < 12:
                                ex.append({"colour": [r, g, b], "matrix": key, "readback_packed": mat[g][b]})
            rep.violation("/".join(sorted(set(viol))), {"planes": planes_bad[:50], "examples": ex,
                          "reproduce": "format_color((r,g,b), fmt) then parse_color_to_rgb / CSS read-back; -1 unreadable, -2 wrong shape"})
            rep.states += res.distinct
            rep.transitions += res.generated
        else:
            rep.add_model(f"FmtGrid({len(reds)} red planes x 65,536 colours x 4 formats x 2 readers)", res,
                          "every formatted value reads back as exactly the colour, by the library parser and by the CSS reader")
        rep.evaluations += len(reds) * 65536 * 4
        rep.extra["format_planes"] = len(reds)
        if t == "thorough":
            rep.extra["all_2^24_colours_x_4_formats_exhaustive"] = True
    finally:
        shutil.rmtree(_GRID, ignore_errors=True)


def main():
    t = vlib.tier()
    rnd = random.Random(vlib.seed() * 49979687 + 6)
    rep = vlib.Report(PID)
    rep.assumptions = ["TLC/SANY", "harness/refs.py css_parse as the CSS-conformant reader (calibrated against CssColor.tla by the C07 check)",
                       "the judged colour = result of the same call with the same parsed colours as int tuples"]
    rep.rule = ("13 spelling classes x case/whitespace variants x outcomes {unchanged, fixed, failed} x modes; plus formatter planes; "
                "distinct = distinct (text, background, large)")
    rep.add_model("MC_CssColor", vlib.check_model("MC_CssColor", "MC_CssColor.cfg"), "definition sanity incl. the OutFormat table's domain")
    specs = specs_for(t, rnd)
    behs = pairs.record(specs)
    # (a refused pair stays in when its spelling is one of the documented ones: TLC reports it)
    keep = [(s, b) for s, b in zip(specs, behs) if b and (b[0].get("valid") or b[0].get("mustParse"))]
    dropped = len(specs) - len(keep)
    specs = [s for s, _ in keep]
    behs = [b for _, b in keep]
    agg = vlib.validate_traces("TrPair", behs)
    rep.add_traces(agg, len(behs))
    rep.evaluations = sum(len(b) - 1 for b in behs)
    rep.nontrivial = len({(json.dumps(s["text"]), json.dumps(s["bg"]), s["large"]) for s in specs})
    rep.extra["unparseable_generated_inputs"] = dropped
    oc = {}
    for s, b in zip(specs, behs):
        for e in b[1:]:
            o = "unchanged" if e["css"] == b[0]["text"] and e["ok"] else ("fixed" if e["ok"] else "failed")
            oc[(s["spell"], o)] = oc.get((s["spell"], o), 0) + 1
    rep.extra["spelling_x_outcome_cells_covered"] = len(oc)
    rep.extra["spelling_x_outcome"] = {f"{k[0]}/{k[1]}": v for k, v in sorted(oc.items())}
    for b in behs[:3]:
        rep.sample({"behaviour": [{k: v for k, v in e.items() if k not in ("chain",)} for e in b[:2]]})
    pairchecks.classify(rep, PID, specs, behs, agg)
    planes(rep, t, rnd)
    return rep.finish()


pairchecks.PREFIX[PID] = ("C06_",)

if __name__ == "__main__":
    vlib.main_wrapper(main)
