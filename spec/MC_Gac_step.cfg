SPECIFICATION Spec
CONSTANTS NC = 3
          NL = 4
          Sched <- SchedStep
INVARIANT Contract
INVARIANT NotWorse
INVARIANT AlreadyAtTarget
CHECK_DEADLOCK FALSE
