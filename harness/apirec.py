"""Recorder for histories of public-API operations (C12, C14, C15, C17) -> events for TrApi.tla.

An operation list is executed in this process, in threads, or in a fresh interpreter (python apirec.py ops.json);
each operation yields one raw observation with printable reprs; intern() turns reprs into small integers so that the
trace contains only booleans, short strings and ints < 2^31.
"""
import os, json, sys, io, json, math, tempfile, threading, subprocess, hashlib
sys.path.insert(0, os.path.dirname(os.path.abspath(__file__)))
import vlib

# ----------------------------------------------------------------------------- value encoding (ops travel as JSON)

class Stub:
    """a value no colour parser can read, inside a colour sequence: "nocopy" cannot be copied or pickled (like a generator, a
    lock, an open file), "ident" can but compares by identity (like object()).  The repr is stable."""

    def __init__(self, kind):
        self.kind = kind

    def __repr__(self):
        return "<stub %s>" % self.kind

    def __deepcopy__(self, memo):
        if self.kind == "nocopy":
            raise TypeError("cannot copy 'stub' object")
        return Stub(self.kind)

    def __copy__(self):
        return self.__deepcopy__({})


def enc(v):
    if isinstance(v, Stub):
        return {"o": v.kind}
    """python value -> JSON-able tagged form (tuples, lists, floats incl. nan/inf, None, bools, strings)."""
    if isinstance(v, bool) or v is None or isinstance(v, str):
        return v
    if isinstance(v, int):
        return {"i": str(v)}
    if isinstance(v, float):
        return {"f": repr(v)}
    if isinstance(v, tuple):
        return {"t": [enc(x) for x in v]}
    if isinstance(v, list):
        return {"l": [enc(x) for x in v]}
    raise TypeError(type(v))


def dec(v):
    if isinstance(v, dict):
        if "i" in v:
            return int(v["i"])
        if "f" in v:
            return float(v["f"])
        if "t" in v:
            return tuple(dec(x) for x in v["t"])
        if "l" in v:
            return [dec(x) for x in v["l"]]
        if "o" in v:
            return Stub(v["o"])
    return v


def _eq(a, b):
    try:
        return bool(a == b)
    except Exception:
        return False


def krepr(*parts):
    return repr(parts)


def is_rgb_ints(v):
    return (isinstance(v, (tuple, list)) and len(v) == 3
            and all(isinstance(x, int) and not isinstance(x, bool) and 0 <= x <= 255 for x in v))


# ----------------------------------------------------------------------------- environment observation

class EnvWatch:
    """fd-level capture of stdout/stderr + before/after listing of the working directory."""

    root = None       # when set: the whole scratch area is listed (paths relative to the CURRENT working directory), so a file
                      # written outside the working directory - e.g. into the directory an object was constructed in - is seen

    def __init__(self, enabled):
        self.enabled = enabled

    def __enter__(self):
        self.dout = 0
        self.new, self.mod = [], []
        if not self.enabled:
            return self
        sys.stdout.flush(); sys.stderr.flush()
        self.before = self._listing()
        self.tmp = tempfile.TemporaryFile()
        self.saved = (os.dup(1), os.dup(2))
        os.dup2(self.tmp.fileno(), 1); os.dup2(self.tmp.fileno(), 2)
        return self

    def _listing(self):
        out = {}
        for root, dirs, files in os.walk(EnvWatch.root or "."):
            for f in files:
                p = os.path.join(root, f)
                try:
                    st = os.stat(p)
                    out[os.path.relpath(p, ".")] = (st.st_size, st.st_mtime_ns)
                except OSError:
                    pass
        return out

    def __exit__(self, *a):
        if not self.enabled:
            return False
        sys.stdout.flush(); sys.stderr.flush()
        os.dup2(self.saved[0], 1); os.dup2(self.saved[1], 2)
        os.close(self.saved[0]); os.close(self.saved[1])
        self.dout = self.tmp.seek(0, 2)
        self.tmp.close()
        after = self._listing()
        self.new = sorted(k for k in after if k not in self.before)
        # (a file that was there before and is gone afterwards has been modified, too)
        self.mod = sorted([k for k in after if k in self.before and after[k] != self.before[k]] + [k for k in self.before if k not in after])
        return False


def pair_state(p):
    try:
        return repr((p.text.rgb, repr(p.text.original), p.text.error, p.bg.rgb, repr(p.bg.original), p.bg.error, p.large,
                     p.is_valid, p.is_readable))
    except Exception as ex:
        return "raised:" + type(ex).__name__


# ----------------------------------------------------------------------------- executing operations

def _observe_color(c, order):
    """(is_valid, rgb, error) of a Color, each accessor read once, in one of three orders"""
    if order == 1:
        err = c.error
        rgb = c.rgb
        valid = bool(c.is_valid)
    elif order == 2:
        rgb = c.rgb
        err = c.error
        valid = bool(c.is_valid)
    else:
        valid = bool(c.is_valid)
        rgb = c.rgb
        err = c.error
    return valid, rgb, err


def run_ops(ops, observe_env=False, tag=""):
    """ops (JSON-able): ["new", oid, text, bg, large] | ["color", oid, value] | ["readable", oid] |
    ["fix", oid, mode, vr, show, save] | ["bulk", [[text,bg]|[text,bg,large]...], mode, vr, save] | ["cli", css_text, argv]
    values encoded with enc().  Returns raw observations."""
    vlib.use_repo()
    import cm_colors
    from cm_colors import Color, ColorPair, make_readable_bulk
    objs = {}
    out = []
    shared = {}
    ncall = [0, 0]

    def D(v):
        """decode; a LIST value that occurs several times in one behaviour is one and the same object every time (a caller
        who keeps his colour in a variable) - so an implementation that writes into its argument is seen by the later calls"""
        if isinstance(v, dict) and "l" in v:
            key = json.dumps(v, sort_keys=True)
            if key not in shared:
                shared[key] = dec(v)
            return shared[key]
        return dec(v)

    for op in ops:
        kind = op[0]
        if kind in ("new", "color"):
            oid = op[1]
            ev = {"op": "new", "obj": oid, "raised": "", "valid": False, "rgbOk": False, "rgbNone": False, "errNonEmpty": False}
            try:
                if kind == "new":
                    text, bg, large = D(op[2]), D(op[3]), dec(op[4])
                    ev["keyrepr"] = krepr("pair", dec(op[2]), dec(op[3]), large)      # (the key is the value as GIVEN in the history)
                    arg_before = (repr(dec(op[2])), repr(dec(op[3])))
                    with EnvWatch(observe_env) as w:
                        o = ColorPair(text, bg, large)
                    ev["_args"] = (text, bg, arg_before)
                    # the three accessors are read in a rotating order (what an accessor says must not depend on which
                    # one was touched first on a fresh object)
                    parts = [o.text, o.bg]
                    obs3 = [_observe_color(c, oid % 3) for c in parts]
                    errs = o.errors if oid % 3 == 1 else None
                    valid = bool(o.is_valid)
                    if errs is None:
                        errs = o.errors
                    ev["valid"] = valid
                    ev["rgbOk"] = all(is_rgb_ints(x[1]) for x in obs3) if valid else False
                    ev["rgbNone"] = any((not x[0]) and x[1] is None for x in obs3) and all(x[0] or x[1] is None for x in obs3)
                    ev["errNonEmpty"] = (not valid) and len(errs) > 0 and all(isinstance(x, str) and x.strip() != "" for x in errs) \
                        and all(isinstance(x[2], str) and x[2].strip() != "" for x in obs3 if not x[0]) and valid == all(x[0] for x in obs3)
                else:
                    val = D(op[2])
                    ev["keyrepr"] = krepr("color", dec(op[2]))
                    arg_before = (repr(dec(op[2])), "")
                    with EnvWatch(observe_env) as w:
                        o = Color(val)
                    ev["_args"] = (val, "", arg_before)
                    valid, rgb0, err0 = _observe_color(o, oid % 3)
                    ev["valid"] = valid
                    ev["rgbOk"] = is_rgb_ints(rgb0) if valid else False
                    ev["rgbNone"] = (not valid) and rgb0 is None
                    ev["errNonEmpty"] = (not valid) and isinstance(err0, str) and err0.strip() != ""
                objs[oid] = o
                a_ = ev.pop("_args", None)
                # the caller's own objects are as he passed them (checked after construction AND after the accessors were read)
                ev["argSame"] = a_ is None or (repr(a_[0]), repr(a_[1]) if a_[2][1] != "" else "") == a_[2]
                ev["dout"], ev["newFiles"], ev["modFiles"] = w.dout, w.new, w.mod
            except BaseException as ex:
                if isinstance(ex, (KeyboardInterrupt, SystemExit)):
                    raise
                ev["raised"] = type(ex).__name__
                ev.setdefault("keyrepr", krepr("?", op[2] if len(op) > 2 else None))
                ev.pop("_args", None)
                ev["dout"], ev["newFiles"], ev["modFiles"] = 0, [], []
            out.append(ev)
        elif kind == "readable":
            o = objs.get(op[1])
            ev = {"op": "readable", "obj": op[1], "raised": "", "label": ""}
            if o is None:
                continue
            try:
                ev["label"] = str(o.is_readable)
            except Exception as ex:
                ev["raised"] = type(ex).__name__
            out.append(ev)
        elif kind == "fix":
            _, oid, mode, vr, show, save = op
            o = objs.get(oid)
            if o is None or not hasattr(o, "make_readable"):
                continue
            ev = {"op": "fix", "obj": oid, "mode": mode, "vr": bool(vr), "show": bool(show), "save": bool(save), "raised": "",
                  "resrepr": "None", "ok": False, "sameObj": True, "dout": 0, "newFiles": [], "modFiles": [], "css": [], "tag": tag}
            before = pair_state(o)
            # the report cannot be written (its name is taken by a directory): the call may raise the OS's error - if it returns,
            # everything the properties say about a returned answer still holds, and nothing is written anywhere else
            ev["fault"] = bool(save) and os.path.isdir("cm_colors_quick_report.html")
            try:
                with EnvWatch(observe_env) as w:
                    kw = {}
                    if show:
                        kw["show"] = True
                    if save:
                        kw["save_report"] = True
                    ncall[0] += 1
                    if ncall[0] % 3 == 2:
                        # the documented parameter order, given by position: make_readable(mode, very_readable, show, save_report)
                        ret = o.make_readable(mode, vr, bool(show), bool(save))
                    else:
                        ret = o.make_readable(mode=mode, very_readable=vr, **kw)
                ev["dout"], ev["newFiles"], ev["modFiles"] = w.dout, w.new, w.mod
                if isinstance(ret, tuple) and len(ret) == 2:
                    ev["resrepr"] = repr(ret[0])
                    ev["ok"] = ret[1] is True
                    ev["okIsBool"] = isinstance(ret[1], bool)
                else:
                    ev["resrepr"] = "malformed:" + repr(ret)
            except Exception as ex:
                ev["raised"] = type(ex).__name__
                try:
                    ev["dout"], ev["newFiles"], ev["modFiles"] = w.dout, w.new, w.mod
                except Exception:
                    pass
            ev["sameObj"] = pair_state(o) == before
            out.append(ev)
        elif kind == "bulk":
            _, entries, mode, vr, save = op[:5]
            how = op[5] if len(op) > 5 else "list"      # how the entries are handed over: list, tuple, or a one-shot iterator
            abort = len(op) > 6 and op[6] == "abort"
            # an entry is given either as a plain JSON list of encoded components (-> tuple entry) or as one encoded value
            # {"t": [...]} / {"l": [...]} (-> tuple / LIST entry: the entry's own container type is part of the input)
            ents = [D(e) if isinstance(e, dict) else tuple(D(x) for x in e) for e in entries]
            ents_before = repr([dec(e) if isinstance(e, dict) else tuple(dec(x) for x in e) for e in entries])
            ev = {"op": "bulk", "mode": mode, "vr": bool(vr), "save": bool(save), "raised": "", "entries": [], "results": [],
                  "dout": 0, "newFiles": [], "modFiles": [], "fault": (bool(save) and os.path.isdir("cm_colors_bulk_report.html")) or abort}
            for e in ents:
                text, bg = e[0], e[1]
                large = e[2] if len(e) == 3 else False
                try:
                    p = ColorPair(text, bg, large)
                    valid = bool(p.is_valid)
                    bgrgb = list(p.bg.rgb) if valid else []
                except Exception:
                    valid, bgrgb = False, []
                ev["entries"].append({"keyrepr": krepr("pair", text, bg, large), "valid": valid, "bgrgb": bgrgb, "large": bool(large),
                                      "textrepr": repr(text)})
            try:
                with EnvWatch(observe_env) as w:
                    kw = {"save_report": True} if save else {}
                    arg = ents if how == "list" else tuple(ents) if how == "tuple" else iter(ents) if how == "iter" else (e_ for e_ in ents)
                    if abort:
                        # a list whose LAST row is malformed (one element): the call may refuse the argument by raising - what it
                        # did for the rows before must not live on in later calls
                        arg = list(ents) + [("#123456",)]
                    ncall[1] += 1
                    if ncall[1] % 2 == 0:
                        # by position: make_readable_bulk(pairs, mode, very_readable, save_report)
                        res = make_readable_bulk(arg, mode, vr, bool(save))
                    else:
                        res = make_readable_bulk(arg, mode=mode, very_readable=vr, **kw)
                ev["dout"], ev["newFiles"], ev["modFiles"] = w.dout, w.new, w.mod
                ev["argSame"] = repr(ents) == ents_before
                import pairs as _pairs
                for j, r in enumerate(res[:len(ents)] if abort else res):
                    col, status = (r[0], r[1]) if isinstance(r, tuple) and len(r) == 2 else (None, "malformed")
                    css, _lib = _pairs.readbacks(col) if col is not None else ([], [])
                    ent = ev["entries"][j] if j < len(ev["entries"]) else None
                    ev["results"].append({"resrepr": repr(col), "status": str(status),
                                          "unchanged": bool(ent is not None and repr(col) == ent["textrepr"] and j < len(ents)
                                                            and (col is ents[j][0] or _eq(col, ents[j][0]))),
                                          "css": css, "bg": ent["bgrgb"] if ent else [], "large": ent["large"] if ent else False})
            except Exception as ex:
                ev["raised"] = type(ex).__name__
            out.append(ev)
        elif kind == "chdir":
            # the process moves to a sibling scratch directory (objects constructed before keep living)
            tgt = os.path.join(EnvWatch.root or ".", op[1])
            os.makedirs(tgt, exist_ok=True)
            os.chdir(tgt)
        elif kind == "block":
            # the name of a report is taken by a DIRECTORY in the working directory: writing the report fails
            os.makedirs(op[1], exist_ok=True)
        elif kind == "tmpdir":
            # the process's temporary directory lies inside the watched scratch area (so a file "rescued" there is seen)
            tgt = os.path.join(EnvWatch.root or ".", op[1])
            os.makedirs(tgt, exist_ok=True)
            for k_ in ("TMPDIR", "TEMP", "TMP"):
                os.environ[k_] = tgt
            tempfile.tempdir = None
        elif kind == "rlimit":
            # lower the soft limit on open files: a history of many calls must not exhaust descriptors
            import resource
            soft, hard = resource.getrlimit(resource.RLIMIT_NOFILE)
            resource.setrlimit(resource.RLIMIT_NOFILE, (min(int(op[1]), hard if hard > 0 else int(op[1])), hard))
        elif kind == "cli":
            _, css_text, argv = op
            ev = {"op": "other", "dout": 0, "newFiles": [], "what": "cli"}
            try:
                from click.testing import CliRunner
                from cm_colors.cli.main import main as cli_main
                d = tempfile.mkdtemp(prefix="verif_cli_")
                try:
                    with open(os.path.join(d, "h.css"), "w") as f:
                        f.write(css_text)
                    cwd = os.getcwd()
                    os.chdir(d)
                    try:
                        CliRunner().invoke(cli_main, [os.path.join(d, "h.css")] + list(argv))
                    finally:
                        os.chdir(cwd)
                finally:
                    import shutil
                    shutil.rmtree(d, ignore_errors=True)
            except Exception as ex:
                ev["what"] = "cli-raised:" + type(ex).__name__
            out.append(ev)
    return out


def run_fresh(ops, hashseed="0", observe_env=False, pyflags=(), env_extra=None):
    """the same operations in a fresh interpreter process (optionally started with interpreter flags such as -O)."""
    e = dict(os.environ)
    e.update(env_extra or {})
    e["PYTHONHASHSEED"] = str(hashseed)
    e["PYTHONPATH"] = os.path.join(vlib.REPO, "src")
    p = subprocess.run([sys.executable] + list(pyflags) + [os.path.abspath(__file__), "1" if observe_env else "0"], input=json.dumps(ops), text=True,
                       capture_output=True, env=e, timeout=600)
    if p.returncode != 0:
        raise vlib.MachineryError("fresh interpreter failed: " + p.stderr[-2000:])
    return json.loads(p.stdout.strip().splitlines()[-1])


# ----------------------------------------------------------------------------- interning

class Interner:
    def __init__(self):
        self.ids = {}
        self.names = []

    def __call__(self, s):
        if s not in self.ids:
            self.ids[s] = len(self.names) + 1
            self.names.append(s)
        return self.ids[s]


def to_events(raw, keys, cols):
    """raw observations -> TrApi events (ids instead of reprs).  None -> colour id 0."""
    evs = []
    for r in raw:
        e = dict(r)
        if e["op"] in ("new", "bulk"):
            e["argSame"] = bool(e.get("argSame", True))
        if e["op"] in ("fix", "bulk"):
            e["fault"] = bool(e.get("fault", False))
        if e["op"] == "new":
            e["key"] = keys(e.pop("keyrepr"))
        elif e["op"] == "fix":
            rr = e.pop("resrepr")
            e["res"] = 0 if rr == "None" else cols(rr)
            e["resText"] = rr[:60]
            e.pop("okIsBool", None)
        elif e["op"] == "bulk":
            e["entries"] = [{"key": keys(x["keyrepr"]), "valid": x["valid"]} for x in e["entries"]]
            e["results"] = [{"res": 0 if x["resrepr"] == "None" else cols(x["resrepr"]), "status": x["status"], "unchanged": x["unchanged"],
                             "css": x["css"], "bg": x["bg"], "large": x["large"]} for x in e["results"]]
        elif e["op"] == "other":
            e.pop("what", None)
        evs.append(e)
    return evs


def run_threaded(per_thread_ops, switch=1e-6):
    """the operations of each thread run concurrently (barrier start, tiny switch interval); events merged in completion
    order.  Meant to be the FIRST use of the library in a fresh interpreter (lazy initialisers race here)."""
    import threading
    sys.setswitchinterval(switch)
    lock = threading.Lock()
    merged = []
    barrier = threading.Barrier(len(per_thread_ops))

    def work(k, ops):
        barrier.wait()
        for op in ops:
            raw = run_ops([op] if op[0] != "fix" else [op], tag=f"thr{k}") if False else None
        # objects live per thread: run the whole list in one go
        raw = run_ops(ops, tag=f"thr{k}")
        with lock:
            merged.extend(raw)

    th = [threading.Thread(target=work, args=(k, ops)) for k, ops in enumerate(per_thread_ops)]
    for x in th:
        x.start()
    for x in th:
        x.join()
    sys.setswitchinterval(0.005)
    return merged


def run_fresh_threaded(per_thread_ops, hashseed="0"):
    e = dict(os.environ)
    e["PYTHONHASHSEED"] = str(hashseed)
    e["PYTHONPATH"] = os.path.join(vlib.REPO, "src")
    p = subprocess.run([sys.executable, os.path.abspath(__file__), "threads"], input=json.dumps(per_thread_ops), text=True,
                       capture_output=True, env=e, timeout=900)
    if p.returncode != 0:
        raise vlib.MachineryError("fresh threaded interpreter failed: " + p.stderr[-2000:])
    return json.loads(p.stdout.strip().splitlines()[-1])


if __name__ == "__main__" and len(sys.argv) > 1 and sys.argv[1] == "threads":
    per_thread = json.loads(sys.stdin.read())
    d = tempfile.mkdtemp(prefix="verif_fresh_")
    os.chdir(d)
    try:
        res = run_threaded(per_thread)
    finally:
        os.chdir("/")
        import shutil
        shutil.rmtree(d, ignore_errors=True)
    sys.stdout.write("\n" + json.dumps(res) + "\n")
    sys.exit(0)

if __name__ == "__main__":
    if os.environ.get("VERIF_IMPORT_UNDER_TMP_STDOUT"):
        # the library is imported for the first time while sys.stdout is a temporary stream (a capture buffer, a notebook cell)
        # that is closed afterwards; later calls run with the ordinary stdout
        import contextlib
        _buf = io.StringIO()
        with contextlib.redirect_stdout(_buf), contextlib.redirect_stderr(_buf):
            vlib.use_repo()
            import cm_colors.core.visualiser, cm_colors.core.cm_colors, cm_colors.core.colors      # noqa
        _buf.close()
    ops = json.loads(sys.stdin.read())
    d = tempfile.mkdtemp(prefix="verif_fresh_")
    EnvWatch.root = d
    os.makedirs(os.path.join(d, "a"))
    os.chdir(os.path.join(d, "a"))
    try:
        res = run_ops(ops, observe_env=(sys.argv[1] == "1"))
    finally:
        os.chdir("/")
        import shutil
        shutil.rmtree(d, ignore_errors=True)
    sys.stdout.write("\n" + json.dumps(res) + "\n")
