\* the lightness search as the code is today (after the two repairs): moves away from the
\* background, a passing candidate always replaces a failing one
SPECIFICATION Spec
CONSTANTS N = 8
          K = 5
          AwayDirection = TRUE
          TrackPassing = TRUE
INVARIANT Contract
INVARIANT FindsWitness
CHECK_DEADLOCK FALSE
