SPECIFICATION Spec
CONSTANTS MaxLen = 3
          Mode = "noquote"
INVARIANT Safe
CHECK_DEADLOCK FALSE
