---- MODULE CliScenarios ----
(***************************************************************************)
(* Named corner stylesheets of Cli.tla's state space (all within the       *)
(* NR <= 3 space that MC_Cli.cfg checks exhaustively): custom properties   *)
(* shared by rules on backgrounds of opposite polarity, aliases used       *)
(* before / after the property they alias, fallbacks with defined and      *)
(* undefined properties, cycles, a literal colour in the :root rule.       *)
(* TLC enumerates them (ScenSpec); the harness replays every one into the  *)
(* real command with each concrete palette, in every run of C08 / C09.     *)
(***************************************************************************)
EXTENDS Cli
R(root, col, bg) == [root |-> root, col |-> col, bg |-> bg]
V(x, y) == [x |-> x, y |-> y]
X == <<"var", "x">>
Y == <<"var", "y">>
Lit(k) == <<"lit", k>>
Undef == <<"undef">>
Scenarios == {
  <<V(Lit(1), X), <<R(FALSE, X, "L"), R(FALSE, Y, "G")>>>>,              \* alias used AFTER the property was re-tuned
  <<V(Lit(1), X), <<R(FALSE, Y, "G"), R(FALSE, X, "L")>>>>,              \* alias used BEFORE
  <<V(Lit(1), X), <<R(FALSE, Y, "L"), R(FALSE, Y, "G")>>>>,              \* alias shared by two rules
  <<V(Lit(1), Undef), <<R(FALSE, X, "L"), R(FALSE, X, "G")>>>>,          \* shared, opposite backgrounds
  <<V(Lit(1), Undef), <<R(FALSE, X, "G"), R(FALSE, X, "L")>>>>,
  <<V(Lit(1), Undef), <<R(FALSE, X, "L"), R(FALSE, X, "L")>>>>,          \* shared, same background
  <<V(Lit(2), Undef), <<R(FALSE, X, "L"), R(FALSE, X, "G"), R(FALSE, X, "L")>>>>,
  <<V(Lit(1), Undef), <<R(FALSE, <<"varfb", "x", Lit(1)>>, "L")>>>>,          \* fallback form, property defined
  <<V(Undef, Undef), <<R(FALSE, <<"varfb", "x", Lit(1)>>, "L"), R(FALSE, X, "L")>>>>,   \* fallback used / undefined property
  <<V(Y, X), <<R(FALSE, X, "L"), R(FALSE, <<"varfb", "y", Lit(1)>>, "G")>>>>, \* cycle
  <<V(Lit(1), Lit(2)), <<R(TRUE, Lit(1), "none"), R(FALSE, Y, "G")>>>>,  \* literal colour in the :root rule
  <<V(Lit(2), X), <<R(FALSE, Y, "G"), R(FALSE, Y, "L"), R(FALSE, X, "G")>>>>,
  <<V(Lit(1), Lit(1)), <<R(FALSE, X, "L"), R(FALSE, Y, "L"), R(FALSE, Lit(1), "G")>>>>,
  <<V(Lit(0), X), <<R(FALSE, X, "L"), R(FALSE, Y, "G")>>>>,              \* unfixable through a property
  <<V(Lit(4), Undef), <<R(FALSE, X, "L"), R(FALSE, Lit(4), "G")>>>>,     \* not a colour
  \* the property is defined and in effect, its fallback would be readable: the rule is judged on the property
  <<V(Lit(1), Undef), <<R(FALSE, <<"varfb", "x", Lit(3)>>, "L")>>>>,
  <<V(Lit(0), Lit(2)), <<R(FALSE, <<"varfb", "x", Lit(3)>>, "G"), R(FALSE, <<"varfb", "y", Lit(3)>>, "G")>>>>
}
ScenInit == /\ tab = McTab /\ phase = "build" /\ sheet0 = <<>>
            /\ \E s \in Scenarios : vdef = s[1] /\ rules = s[2]
            /\ i = 1 /\ acc = 0 /\ tuned = 0 /\ failed = 0 /\ cards = {} /\ failedSel = {} /\ rootDirty = {}
            /\ hackAt = 0 /\ aborted = FALSE
ScenSpec == ScenInit /\ [][Start \/ Process \/ Post]_vars
====
