SPECIFICATION Spec
CONSTANTS NR = 2
INVARIANT Partition
INVARIANT CardMeetsTarget
INVARIANT FailedUnchanged
INVARIANT ReportedIsWrittenModuloKnown
CHECK_DEADLOCK FALSE
