"""Shared driver of the pair-trace checks C01, C02, C03, C04 (API part), C16.

One recording format, one trace specification (TrPair.tla); each property has its own input strata and
reports only its own clauses (others are printed as NOTE lines, never as violations of this property).
"""
import os, sys, json, random, time
sys.path.insert(0, os.path.dirname(os.path.abspath(__file__)))
import vlib, refs, pairs

_UH = {}
_FALLBACK = None
_PLATEAU = None
SIZES = {  # (quick, thorough) number of pairs per stratum
    "uniform": (120, 2500), "threshold": (260, 6000), "grey": (80, 3000), "named": (60, 2000),
    "nearbg": (80, 2000), "hair": (60, 1200), "witness": (900, 20000), "witness_neargrey": (900, 20000), "witness_special": (900, 20000), "witness_plateau": (900, 20000), "witness_crossover": (900, 20000), "witness_satbg": (900, 20000), "witness_translucent": (900, 20000), "spell": (130, 3000), "isolum": (150, 3000), "hairline": (70, 1500), "corner": (120, 2500), "zeroone": (40, 400), "edge": (120, 2500), "ultrahair": (90, 1500), "neargrey": (90, 1500), "informal": (60, 1000), "razor": (150, 3000), "extreme": (60, 1500), "hslbg": (90, 2000), "witness_edge": (900, 20000), "history": (150, 3000), "equilum": (150, 3000), "css4": (80, 1500), "witness_hsl": (900, 20000),
}


def n_of(name, t, scale=1.0):
    q, th = SIZES[name]
    return max(1, int((q if t == "quick" else th) * scale))


def strata(pid, t, rnd):
    """-> list of specs"""
    specs = []
    REQS = (3.0, 4.5, 7.0)

    def add(text, bg, large, spell_kind="tuple", **kw):
        # (one int-tuple text in eight goes in as a tuple of float fractions of 255 - the same colour)
        if spell_kind == "tuple" and pairs.is_rgb_ints(text) and isinstance(text, tuple) and rnd.random() < (0.3 if pid == "C04" else 0.125) and not kw.get("witness"):
            if all(round((v / 255) * 255) == v for v in text) and not all(v in (0, 255) for v in text):
                text, spell_kind = tuple(v / 255 for v in text), "fractuple"
        if pid == "C01" and "runs" not in kw and len(specs) % 9 == 4:
            # ... and once more with a report requested where none can be written (answers that come back are judged)
            kw["runs"] = list(pairs.ALL_RUNS) + [(m_, v_, 2) for (m_, v_) in pairs.ALL_RUNS]
        specs.append(dict(text=text, bg=bg, large=large, spell=spell_kind, **kw))

    def spelled(c, kind):
        return pairs.spell(c, kind, rnd)

    w = {"C01": dict(uniform=1, threshold=1, grey=1, named=1, nearbg=.5, hair=.5, spell=1, isolum=.3, hairline=1, corner=.5, zeroone=1, edge=.5, ultrahair=1, neargrey=.5, informal=.5, razor=1, extreme=.5, hslbg=2.5, equilum=.4, css4=1),
         "C02": dict(uniform=.7, threshold=1, grey=.7, named=.5, nearbg=.7, hair=1.5, spell=1.2, isolum=4, hairline=1, corner=3, zeroone=1, ultrahair=.5, neargrey=1.5, informal=1.5, razor=1.4, extreme=.5, hslbg=1, equilum=.5),
         "C16": dict(uniform=.5, threshold=1.2, grey=.5, named=.3, nearbg=2.0, hair=.3, spell=.2, isolum=.5, edge=3.5, corner=.3, history=1, equilum=1),
         "C04": dict(uniform=1, threshold=1, grey=.5, named=.3, nearbg=1.5, hair=.2, spell=.3, isolum=.5),
         "C03": dict(witness=1, witness_neargrey=.6, witness_translucent=.2, witness_hsl=.25, extreme=3, witness_edge=.6, witness_special=.5, witness_plateau=.2, witness_crossover=.4, witness_satbg=.4)}[pid]
    for name, scale in w.items():
        n = n_of(name, t, scale)
        for k in range(n):
            large = bool(rnd.getrandbits(1))
            if name == "uniform":
                add(pairs.rand_colour(rnd), pairs.rand_colour(rnd), large)
            elif name == "threshold":
                tq = rnd.choice(REQS)
                if rnd.random() < 0.75:
                    a, b = pairs.near_threshold(rnd, tq, (0.0, 0.3))
                else:
                    a, b = pairs.near_threshold(rnd, tq, (-0.08, 0.0))
                add(a, b, large)
            elif name == "grey":
                g1, g2 = rnd.randrange(256), rnd.randrange(256)
                if t == "thorough" and k < 256 * 8:   # a rotating slice of the full 65,536 lattice
                    g1 = (k * 31 + vlib.seed()) % 256
                add((g1, g1, g1), (g2, g2, g2), large, "hex6")
                specs[-1]["text"] = pairs.hexs((g1, g1, g1))
            elif name == "named":
                names = list(refs._named().keys())
                add(rnd.choice(names), rnd.choice(names), large, "named")
            elif name == "nearbg":
                a, b = pairs.near_background(rnd)
                add(a, b, large)
            elif name == "isolum":
                a, b = pairs.isoluminant(rnd)
                # mode 0 first: the strict strategy returns the multi-phase search's answer unfiltered
                add(a, b, large, runs=[(0, False), (0, True), (1, False), (2, False)] if k % 3 else None)
                if specs[-1].get("runs") is None:
                    del specs[-1]["runs"]
            elif name == "corner":
                a, b = pairs.corner_pair(rnd)
                if k < 56:      # every ordered pair of distinct pure cube corners (yellow on lime, cyan on white, ...)
                    cs = [(r_, g_, b_) for r_ in (0, 255) for g_ in (0, 255) for b_ in (0, 255)]
                    prs = [(x, y) for x in cs for y in cs if x != y]
                    a, b = prs[k]
                add(a, b, large, runs=[(0, False), (0, True), (1, False), (2, True)] if k % 3 else None)
                if specs[-1].get("runs") is None:
                    del specs[-1]["runs"]
            elif name == "ultrahair":
                # the darker colour has channels in the knee region of the sRGB curve (0..20); the partner is solved so that the
                # ratio sits within 1e-3 of the requirement
                tq = rnd.choice(REQS)
                v = rnd.randrange(0, 21)
                dark = rnd.choice([(v, v, v), (v, rnd.randrange(21), rnd.randrange(21)), (rnd.randrange(21), v, rnd.randrange(12))])
                key = (dark, tq)
                if key not in _UH:
                    _UH[key] = pairs.ultra_hairline(rnd, dark, tq)
                if _UH[key]:
                    c, _r = rnd.choice(_UH[key])
                    if k & 1:
                        add(c, dark, large)
                    else:
                        add(dark, c, large)
                else:
                    a, b = pairs.hairline(rnd, tq)
                    add(a, b, large)
            elif name == "neargrey":
                # faintly tinted greys, spelled as an hsl() string that denotes exactly that colour; readable and not
                c = pairs.neargrey(rnd)
                bgc = rnd.choice([(255, 255, 255), (0, 0, 0), pairs.rand_colour(rnd)])
                txt = pairs.hsl_exact_text(c) if k % 3 else None
                add(txt or c, bgc, large, "hslfn" if txt else "tuple")
            elif name == "informal":
                # four-number spellings the parser reads as translucent: rgb(r g b / a), rgb(r, g, b, a), "r, g, b, a", "(r, g, b, a)"
                tq = rnd.choice(REQS)
                c, bgc = pairs.near_threshold(rnd, tq, (-0.3, 0.3))
                txt = pairs.translucent_over(c, bgc, rnd)
                label = "tuple" if txt is None else "rgbatuple" if not isinstance(txt, str) else "rgbafn" if txt.startswith("rgba(") else "informal"
                add(txt if txt is not None else c, bgc, large, label)
                if txt is not None:
                    specs[-1]["comp"] = dict(pairs.LAST_COMP[0])      # the pair must be the composite over ITS OWN background
                if k % 3 != 2:
                    specs[-1]["copy"] = ("pickle", "deepcopy")[k % 3]      # ... also after the object has been pickled / deep-copied
            elif name in ("witness_neargrey", "witness_translucent", "witness_special"):
                vr = bool(rnd.getrandbits(1))
                tq = pairs.REQ[(large, vr)]
                for _try in range(60):
                    if name in ("witness_neargrey", "witness_special"):
                        # near-greys and faintly tinted colours (up to 9 levels apart); or colours whose OKLCH hue / chroma sits
                        # on a numerically special value (the 0/360 wrap, the quadrant boundaries, a tiny chroma)
                        c = pairs.special_colour(rnd, "hue_wrap" if k % 2 else None) if name == "witness_special" else pairs.neargrey(rnd)
                        if name == "witness_neargrey" and k % 3 == 0:
                            g_ = rnd.randrange(12, 244)
                            c = tuple(min(255, max(0, g_ + rnd.randint(-5, 5))) for _ in range(3))
                        # a background against which this near-grey sits 0-6 % below the requirement
                        lt = refs.wcag_lum(c)
                        want = tq * rnd.uniform(0.94, 1.0)
                        lb = (lt + 0.05) / want - 0.05 if lt > 0.2 else want * (lt + 0.05) - 0.05
                        if not 0 <= lb <= 1:
                            continue
                        g = min(range(256), key=lambda v: abs(refs._LIN[v] - lb))
                        bgc = (g, g, g)
                        if tq * 0.93 <= refs.wcag_ratio(c, bgc) < tq:
                            if k % 2 == 0 and _try < 50:
                                # every other pair: only HARD witnesses - the closest colour that clears the margin is itself more than
                                # dE 1.05 away (the search has to walk through most of its tolerance schedule to get there)
                                w_ = pairs.witness_scan(c, bgc, tq)
                                if not (isinstance(w_, tuple) and w_[1] >= 10500):
                                    continue
                            add(c, bgc, large, witness=True, runs=[(m, v2) for v2 in (True, False) for m in (0, 1, 2)])
                            break
                    else:
                        c, bgc = pairs.near_threshold(rnd, tq, (0.0, 0.07))
                        txt = pairs.translucent_over(c, bgc, rnd)
                        if txt is not None and bgc != (255, 255, 255):
                            add(txt, bgc, large, "informal", witness=True, runs=[(m, v2) for v2 in (True, False) for m in (0, 1, 2)])
                            specs[-1]["comp"] = dict(pairs.LAST_COMP[0])
                            break
            elif name == "razor":
                # ratio within 3e-7 of a label threshold, both sides (only the fine tables of Wcag.tla can tell which):
                # large text so that 3.0 and 4.5 are the requirements in play, normal text for 4.5 and 7.0
                tq = REQS[k % 3]
                a, b = pairs.razor(rnd, tq, "above" if k % 5 < 3 else "below")
                lg = (tq == 3.0) or (tq == 4.5 and bool(k & 8))
                add(a, b, lg, runs=[(m, v2) for v2 in (False, True) for m in (0, 1, 2)] if k % 2 else None)
                if specs[-1].get("runs") is None:
                    del specs[-1]["runs"]
            elif name == "extreme":
                a, b, vr_, lg = pairs.extreme_only(rnd)
                add(a, b, lg, witness=True, runs=[(m, v2) for v2 in (vr_, not vr_) for m in (0, 1, 2)])
            elif name == "witness_edge":
                # text with a channel at (or within 5 levels of) the gamut boundary, a few per cent below the requirement: the
                # lightness line of such a colour runs along the clipped boundary
                vr = bool(rnd.getrandbits(1))
                tq = pairs.REQ[(large, vr)]
                a, b = pairs.edge_near_threshold(rnd, tq, tries=4000)
                if k % 2:
                    a = tuple(min(255, max(0, v + (rnd.choice([-5, -3, -1, 0]) if v == 255 else rnd.choice([0, 1, 3, 5]) if v == 0 else 0))) for v in a)
                add(a, b, large, witness=True, runs=[(m, v2) for v2 in (vr, not vr) for m in (0, 1, 2)])
            elif name == "witness_hsl":
                vr = bool(rnd.getrandbits(1))
                tq = pairs.REQ[(large, vr)]
                a, b = pairs.near_threshold(rnd, tq, (0.0, 0.07))
                txt = pairs.spell(a, "hslfn", rnd)          # whole degrees and percentages: denotes a colour next to a
                add(txt, b, large, "hslfn", witness=True, runs=[(m, v2) for v2 in (True, False) for m in (0, 1, 2)])
            elif name == "witness_crossover":
                # backgrounds at the luminance where black and white give (almost) the same contrast (about 0.18: both near 4.6),
                # text a few levels from black or from white, a few per cent short of 4.5: which extreme is "the best partner" of
                # such a background is a close call for anything but the WCAG formula itself
                vr = bool(rnd.getrandbits(1))
                lg2 = vr          # (large, very_readable) or (normal, ordinary): the requirement is 4.5
                for _try in range(400):
                    b = pairs.rand_colour(rnd) if rnd.random() < 0.8 else (rnd.randrange(110, 125),) * 3
                    if not 0.170 <= refs.wcag_lum(b) <= 0.200:
                        continue
                    g_ = rnd.randrange(2, 24) if rnd.random() < 0.5 else rnd.randrange(232, 254)
                    a = tuple(min(255, max(0, g_ + rnd.choice([-1, 0, 0, 1]))) for _ in range(3))
                    if 4.5 * 0.95 <= refs.wcag_ratio(a, b) < 4.5:
                        add(a, b, lg2, witness=True, runs=[(m, vr) for m in (0, 1, 2)])
                        break
            elif name == "witness_satbg":
                # saturated backgrounds at the corners of the cube (fuchsia, cyan, yellow, pure blue ... and their neighbours): their
                # OKLCH lightness and their WCAG luminance disagree most about "light" and "dark"; text a few levels from white / black
                for _try in range(300):
                    lg2, vr = bool(rnd.getrandbits(1)), bool(rnd.getrandbits(1))
                    tq = pairs.REQ[(lg2, vr)]
                    b = pairs.cube_corner(rnd) if rnd.random() < 0.7 else tuple(rnd.choice((0, 255)) for _ in range(3))
                    if len(set(b)) == 1:
                        continue
                    g_ = rnd.randrange(2, 30) if rnd.random() < 0.5 else rnd.randrange(225, 254)
                    a = tuple(min(255, max(0, g_ + rnd.choice([-1, 0, 0, 1]))) for _ in range(3))
                    if tq * 0.94 <= refs.wcag_ratio(a, b) < tq:
                        add(a, b, lg2, witness=True, runs=[(m, vr) for m in (0, 1, 2)])
                        break
            elif name == "witness_plateau":
                global _PLATEAU
                if _PLATEAU is None:
                    _PLATEAU = pairs.plateau_pairs(rnd, 40000 if t == "quick" else 400000)
                if _PLATEAU:
                    c, bgc, lg, vr = _PLATEAU[k % len(_PLATEAU)]
                    add(c, bgc, lg, witness=True, runs=[(m, v2) for v2 in (vr, not vr) for m in (0, 1, 2)])
            elif name == "css4":
                # the background in a CSS Color 4 spelling the unchanged library refuses (nothing is judged then): hue with an angle
                # unit, hex with an alpha pair.  A build that accepts them must read them as CSS does
                a, b = pairs.near_threshold(rnd, rnd.choice(REQS), (-0.2, 0.2)) if k % 2 else (rnd.choice([(0, 0, 0), (255, 255, 255), pairs.rand_colour(rnd)]), pairs.rand_colour(rnd))
                add(a, spelled(b, "hslunit" if k % 3 else "hex8"), large, "tuple")
            elif name == "equilum":
                a, b = pairs.equilum(rnd)
                add(a, b, large, runs=[(m, v2) for v2 in (False, True) for m in (1, 2, 0)])
            elif name == "history":
                # the pair's runs come after a short history of relaxed-mode calls that needed the fallback options (selected
                # by scanning the implementation; the verdict on the pair's own runs is TLC's): "asking for less never fails"
                # holds after any history
                global _FALLBACK
                if _FALLBACK is None:
                    _FALLBACK = pairs.fallback_pairs(rnd, 500 if t == "quick" else 6000)
                vr = bool(k & 1)
                a, b = pairs.near_threshold(rnd, pairs.REQ[(large, vr)], (0.0, 0.3))
                pre = []
                if _FALLBACK:
                    for _j in range(rnd.choice([3, 3, 4, 6])):
                        ft, fb, flg, fvr = rnd.choice(_FALLBACK)
                        pre.append((ft, fb, flg, 2, fvr))
                add(a, b, large, runs=[(1, vr), (2, vr)] if k % 2 else [(2, vr), (1, vr)], prelude=pre)
            elif name == "hslbg":
                # the BACKGROUND written as an exact hsl() value with its hue turns away (negative / beyond 360): near-black and
                # near-grey backgrounds (saturation / lightness below 1 %), and ordinary ones just off a requirement
                tq = rnd.choice(REQS)
                if pid == "C01" and k % 5 >= 2:
                    # most of C01's share: pairs that need a fix (the result lands just above the requirement - against the
                    # background as the library read it)
                    a, b = pairs.near_threshold(rnd, tq, (0.0, 0.3))
                    if k % 5 >= 3:
                        # ... a MUTED background (a hue in any sector, little saturation: whatever a reader does to such a hue
                        # still gives a colour) under a lighter text that misses the requirement by up to 0.3
                        g_ = rnd.randrange(30, 125)
                        b = tuple(min(255, max(0, g_ + rnd.randint(-22, 22))) for _ in range(3))
                        cand = [v for v in range(256) if tq - 0.3 <= refs.wcag_ratio((v, v, min(255, v + 6)), b) < tq and v > max(b)]
                        if cand:
                            v = rnd.choice(cand)
                            a = (v, v, min(255, v + 6))
                elif k % 3 == 0:
                    g = rnd.choice([1, 2, 3, 5])
                    b = rnd.choice([(g, g, g), (g, g + 1, g), (g + 1, g, g)])
                    a = rnd.choice([(0, 0, 0), (255, 255, 255), (g + 2, g + 2, g + 2), pairs.rand_colour(rnd)])
                elif k % 3 == 1:
                    b = pairs.neargrey(rnd)
                    a, _b = pairs.near_threshold(rnd, tq, (-0.05, 0.1))
                elif k % 2:
                    a, b = pairs.near_threshold(rnd, tq, (-0.04, 0.04))
                else:
                    a, b = pairs.near_threshold(rnd, tq, (0.0, 0.3))       # needs a fix: the result lands just above the requirement
                bk = "hslmixed" if k % 4 == 3 else "hslodd"
                add(a if k % 2 else spelled(a, "hslodd"), spelled(b, bk), large, "tuple" if k % 2 else "hslodd")
            elif name == "edge":
                a, b = pairs.edge_near_threshold(rnd, rnd.choice(REQS))
                add(a, b, large)
            elif name == "zeroone":
                a, b = pairs.zero_one_pair(rnd)
                add(a, b, large, "zeroone", runs=[(1, False), (0, True)])
            elif name == "hairline":
                a, b = pairs.hairline(rnd, rnd.choice(REQS))
                add(a, b, large)
            elif name == "hair":
                tq = rnd.choice(REQS)
                a, b = pairs.near_threshold(rnd, tq, (-0.01, 0.01))
                if rnd.random() < 0.15:
                    a = b
                add(a, b, large)
            elif name == "spell":
                kind = pairs.SPELLS[k % len(pairs.SPELLS)]
                if rnd.random() < 0.6:
                    a, b = pairs.near_threshold(rnd, rnd.choice(REQS), (0.0, 0.3))
                else:
                    a, b = pairs.rand_colour(rnd), pairs.rand_colour(rnd)
                if pid == "C02" and k % 2 == 0:
                    a, b = pairs.near_threshold(rnd, 7.0, (-0.8, -0.05))      # already fine at every setting: comes back as it is
                if kind == "hex3":
                    a = tuple((v // 17) * 17 for v in a)
                bgk = rnd.choice(["tuple", "hex6", "rgbfn", "named", "rgbafn", "hslodd", "hslfn", "rgbpct"])
                add(spelled(a, kind), spelled(b, bgk), large, kind)
            elif name == "witness":
                vr = bool(rnd.getrandbits(1))
                tq = pairs.REQ[(large, vr)]
                a, b = pairs.near_threshold(rnd, tq, (0.0, 0.2) if k % 5 == 0 else (0.0, 0.07))
                # strata: text lighter/darker than the background on light/mid/dark backgrounds come from the
                # random segment end (black/white) and random backgrounds of near_threshold
                # both settings are run on the same pair in one process, the stricter one first, every mode
                add(a, b, large, witness=True, runs=[(m, v) for v in (True, False) for m in (0, 1, 2)])
    return specs


# C02's first clause speaks of the original colour "after compositing any transparency": a wrong composite breaks it
PREFIX = {"C01": ("C01_",), "C02": ("C02_", "C13_CompositeOverOwnBackground"), "C03": ("C03_",), "C04": ("C04_",), "C16": ("C16_",)}


def classify(rep, pid, specs, behaviours, agg, finding_of=None):
    """turn TLC's per-behaviour verdicts into violations / notes / inconclusive counts"""
    notes = {}
    for bad in agg["bad"]:
        beh, spec = behaviours[bad["tid"]], specs[bad["tid"]]
        mine = [f for f in bad["fails"] if f.startswith(PREFIX[pid])]
        other = [f for f in bad["fails"] if not f.startswith(PREFIX[pid])]
        for f in bad["incon"]:
            if f.startswith("D_"):
                rep.drift += 1
            elif f.startswith(PREFIX[pid]):
                rep.inconclusive += 1
        for f in other:
            notes[f] = notes.get(f, 0) + 1
        if mine:
            fid = finding_of(spec, beh, mine) if finding_of else None
            rep.violation("/".join(mine), dict(clauses=mine, input=dict(text=spec["text"], bg=spec["bg"], large=spec["large"]),
                          behaviour=beh,
                          reproduce=f"ColorPair({spec['text']!r}, {spec['bg']!r}, {spec['large']!r}).make_readable(mode=m, very_readable=vr) for the Fix events listed"),
                          finding=fid)
    for f, c in sorted(notes.items()):
        print(f"NOTE: {c} behaviour(s) also failed clause {f} (belongs to another property's check)")


def design_models(rep, pid, t):
    if pid in ("C01", "C02", "C04", "C16"):
        rep.add_model("Strat(NC=3,NL=4,caps 2/3)", vlib.check_model("Strat", "MC_Strat.cfg", extra=["-coverage", "1"]),
                      "every oracle (con, de, memoised search results), modes 1->2->0: FlagExact, NoHarm, AlreadyOk, StrictCap, Mode2CoversMode1")
    if pid in ("C01", "C16"):
        rep.add_model("Strat liveness (NC=3,NL=3)", vlib.check_model("Strat", "MC_Strat_live.cfg"),
                      "under weak fairness every run (modes 1, 2, 0) terminates: <>(pc = done /\\ mode = 0)")
    if pid == "C16":
        cfg = "MC_Opt2.cfg" if t == "thorough" else "MC_Opt2_small.cfg"
        rep.add_model(cfg[:-4], vlib.check_model("Opt2", cfg, heap="24g", timeout=3000),
                      "product run very_readable then ordinary on the same per-tolerance search oracles: OrdinaryCoversPremium")
    if pid in ("C03", "C04"):
        rep.add_model("Bsl(N=8,K=5)", vlib.check_model("Bsl", "MC_Bsl.cfg"),
                      "lightness search on the dyadic grid, all (text,bg,radius,target): Contract, FindsWitness")
    if pid == "C04":
        # the same contract for the REAL constants (N = 255 levels, K = 20 halvings; 2^32 initial states): a one-step inductive
        # invariant discharged symbolically by Apalache
        w = vlib.apalache_inductive("ApaBsl")
        rep.models.append(dict(model="ApaBsl(N=255,K=20) inductive invariant (Apalache)", wall_s=round(w, 1),
                               note="Init => IndInv and IndInv /\\ Next => IndInv'; IndInv implies Contract (result is nothing or within the tolerance)"))
        rep.add_model("BslAny(K=4)", vlib.check_model("BslAny", "MC_BslAny.cfg"),
                      "lightness search bookkeeping under ARBITRARY validity/dE/contrast answers: Contract")
        rep.add_model("Gac", vlib.check_model("Gac", "MC_Gac.cfg"),
                      "multi-phase search over arbitrary sub-search answers: result = input or within max(schedule), contrast strictly higher")


STRAT_CFG = ("SPECIFICATION TSpec\nCONSTANTS NC = 40\n NL = 3\n MaxIter1 = 10\n MaxIter2 = 15\n StrictCap = 50010\n StepCap = 30010\n"
             " RelaxedCap = 150010\n DeTop = 99999999\nPOSTCONDITION KitPost\nCHECK_DEADLOCK FALSE\n")


def refinement(rep, behaviours, cap=1500):
    """Level B: each observed run (with its chain of search calls) must be a behaviour of Strat.tla (TrStrat.tla).
    Reported as drift only - never a violation."""
    runs = []
    for b in behaviours:
        c0 = b[0]
        for e in b[1:]:
            if not e.get("haveChain") or not e["css"] or e["raised"]:
                continue
            cols = [c0["text"]]

            def idx(c):
                if c not in cols:
                    cols.append(c)
                return cols.index(c)
            chain = []
            bad = False
            for s in e["chain"]:
                if not s["out"]:
                    bad = True
                    break
                chain.append([idx(s["in"]), idx(s["out"])])
            if bad or len(cols) > 38:
                continue
            res = idx(e["css"])
            de = [[s_[0], s_[1], refs.de4(cols[s_[0]], cols[s_[1]])] for s_ in chain if s_[0] != s_[1]]
            de += [[0, j, refs.de4(cols[0], cols[j])] for j in range(1, len(cols))]
            runs.append({"mode": e["mode"], "vr": e["vr"], "large": c0["large"], "bg": c0["bg"], "cols": cols, "chain": chain, "de": de,
                         "res": res, "ok": e["ok"]})
    runs = runs[:cap]
    if not runs:
        return
    # TrStrat takes one run per trace: Traces[tid] is the run record itself
    agg = vlib.validate_traces("TrStrat", runs, cfg=STRAT_CFG, min_per_shard=60)
    rep.states += agg["distinct"]
    rep.transitions += agg["generated"]
    drift = [b for b in agg["bad"] if any(x.startswith("D_") for x in b["incon"])]
    rep.drift += len(drift)
    rep.extra["refinement_runs_checked_against_Strat"] = len(runs)
    rep.extra["refinement_runs_accepted"] = len(runs) - len(agg["bad"])
    rep.extra["refinement_threshold_close_skipped"] = sum(1 for b in agg["bad"] if "I_ThresholdClose" in b["incon"])
    for b in drift[:5]:
        print(f"DRIFT module=Strat {b['incon']} run={json.dumps(runs[b['tid']])[:300]}")


def run(pid, extra=None):
    t = vlib.tier()
    rnd = random.Random(vlib.seed() * 104729 + sum(map(ord, pid)))
    rep = vlib.Report(pid)
    refs.selftest()
    rep.assumptions = ["TLC/SANY", "WCAG tables generator (tools/gen_wcag_tables.py)",
                       "harness/refs.py css_parse as the CSS read-back (calibrated against CssColor.tla by C07)",
                       "pair.text.rgb / pair.bg.rgb as the parsed pair (C07/C13 decide parsing and compositing)"]
    if pid in ("C03", "C04"):
        rep.assumptions.append("reference CIEDE2000 / OKLab in harness/refs.py (checked against the 34 Sharma-Wu-Dalal pairs) "
                               "supplies dE in 1e-4 units with a 1e-3 guard band")
    design_models(rep, pid, t)
    specs = strata(pid, t, rnd)
    t0 = time.time()
    behaviours = pairs.record(specs)
    rec_s = time.time() - t0
    # behaviours whose construction was invalid are not pair traces (named x named always parse; others are generator slips)
    keep = [(s, b) for s, b in zip(specs, behaviours) if b and b[0].get("valid")]
    specs = [s for s, _ in keep]
    behaviours = [b for _, b in keep]
    agg = vlib.validate_traces("TrPair", behaviours)
    rep.add_traces(agg, len(behaviours))
    nfix = sum(len(b) - 1 for b in behaviours)
    rep.evaluations = nfix
    rep.extra["recording_wall_s"] = round(rec_s, 1)
    rep.extra["fix_events"] = nfix
    rep.extra["chain_wrapper_installed"] = any(e.get("haveChain") for b in behaviours for e in b[1:])
    distinct = {(json.dumps(s["text"]), json.dumps(s["bg"]), s["large"]) for s in specs}
    changed = sum(1 for b in behaviours for e in b[1:] if e["css"] and e["css"] != b[0]["text"])
    rep.nontrivial = len(distinct)
    rep.extra["fix_events_where_colour_changed"] = changed
    rep.extra["outcomes"] = {
        "unchanged_ok": sum(1 for b in behaviours for e in b[1:] if e["ok"] and e["css"] == b[0]["text"]),
        "fixed": sum(1 for b in behaviours for e in b[1:] if e["ok"] and e["css"] != b[0]["text"]),
        "failed": sum(1 for b in behaviours for e in b[1:] if not e["ok"])}
    rep.rule = ("pairs from strata (uniform, threshold-bracketing, grey x grey, named x named, near-background, hair above/below, "
                "all spellings; C03: witness pairs 0-20% below the requirement) x modes x very_readable; distinct = distinct "
                "(text, background, large) inputs; non-trivial counts per clause are in clause_counts (antecedent held)")
    for b in behaviours[:3]:
        rep.sample({"behaviour": b[:3]})
    classify(rep, pid, specs, behaviours, agg)
    if pid == "C03":
        strata_ = {}
        for b in behaviours:
            t_, g_ = b[0]["text"], b[0]["bg"]
            lt, lb = refs.wcag_lum(t_), refs.wcag_lum(g_)
            key = ("text lighter" if lt > lb else "text darker") + " / " + ("dark" if lb < 0.1 else "light" if lb > 0.5 else "mid") + " background"
            nw = sum(1 for e in b[1:] if e["witKind"] == "witness")
            if nw:
                strata_[key] = strata_.get(key, 0) + nw
        rep.extra["witness_events_by_stratum"] = strata_
    if pid in ("C01", "C04", "C16"):
        refinement(rep, behaviours, cap=500 if t == "quick" else 20000)
    if extra:
        extra(rep, t, rnd)
    return rep.finish()
