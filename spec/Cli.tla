---- MODULE Cli ----
(***************************************************************************)
(* The rewrite pass of the cm-colors command on ONE stylesheet, as the     *)
(* code does it today (C08): rules in document order; the text colour is   *)
(* a literal, var(--x) or var(--x, fallback); custom properties come from  *)
(* the top-level :root/html block and are UPDATED IN PLACE when a rule     *)
(* that references one is adjusted; the fallback form is counted but not   *)
(* written; :root/html rules are re-serialised after the pass from the     *)
(* declarations parsed before it (Post).  The Python API is an oracle      *)
(* table `tab` : (colour, background) -> invalid | fail | pass | tuned c.  *)
(* MC_Cli*.cfg explore all abstract stylesheets over a 5-colour palette;   *)
(* TrCliModel.tla binds the same actions to recorded runs of the real      *)
(* command with the table taken from the real API.                         *)
(***************************************************************************)
EXTENDS Integers, Sequences, FiniteSets, TLC
CONSTANTS NR,               \* max number of style rules (besides the variable-defining :root block)
          RootPostOverwrites, \* TRUE = before the repair: the :root/html post-pass restores the pre-parsed declarations (F4)
          FallbackWritten,    \* FALSE = before the repair: var(--x, fallback) is counted but nothing is written (F5)
          CarryInvalid,       \* FALSE = before the repair: a re-serialised rule that holds something the CSS library cannot parse as a
                              \*         declaration (the star hack "*zoom: 1") aborts the whole file - nothing is written (F11)
          HackPositions       \* rule positions that may hold such a declaration (one per stylesheet; {} in the large configurations)
Vars == {"x", "y"}
Pal == 0..4            \* 0 unfixable, 1 fixable, 2 ok on L / fixable on G, 3 ok everywhere, 4 not a colour
Bgs == {"L", "G"}
NoneE == <<"none">>
\* abstract API for model checking: make_readable outcome for text t on background b
McOut(t, b) == IF t = 4 THEN <<"invalid">>
             ELSE IF t = 0 THEN <<"fail">>
             ELSE IF t = 1 THEN (IF b = "L" THEN <<"tuned", 2>> ELSE <<"tuned", 3>>)
             ELSE IF t = 2 THEN (IF b = "L" THEN <<"pass">> ELSE <<"tuned", 3>>)
             ELSE <<"pass">>
ColExprs == {NoneE} \cup {<<"lit", k>> : k \in Pal} \cup {<<"var", v>> : v \in Vars}
            \cup {<<"varfb", v, <<"lit", k>>>> : v \in Vars, k \in {1, 3}}
            \cup {<<"varfb", p[1], <<"var", p[2]>>>> : p \in {q \in Vars \X Vars : q[1] # q[2]}}      \* var(--v, var(--w))
VarDefs == {<<"undef">>} \cup {<<"lit", k>> : k \in {1, 2, 3}} \cup {<<"var", v>> : v \in Vars}
Rules == [root : BOOLEAN, col : ColExprs, bg : {"none"} \cup Bgs]
VARIABLES tab, phase, sheet0, vdef, rules, i, acc, tuned, failed, cards, failedSel, rootDirty,
          hackAt,    \* 0, or the position of the rule that holds an unparsable declaration next to its colour
          aborted    \* the file could not be re-serialised: no output is written (what was counted and reported stays reported)
vars == <<tab, phase, sheet0, vdef, rules, i, acc, tuned, failed, cards, failedSel, rootDirty, hackAt, aborted>>
Out(t, b) == IF <<t, b>> \in DOMAIN tab THEN tab[<<t, b>>] ELSE <<"invalid">>
McTab == [p \in Pal \X Bgs |-> McOut(p[1], p[2])]
\* ---- variable resolution as the code does it (visited set, fallback) ----
\* The fallback of var(--v, fallback) is itself an expression: a literal or another var().  As in the code, a cycle
\* returns the RAW fallback text: a literal is then the colour, a var() text is a non-colour string (-2), no fallback is -1.
RECURSIVE Res(_, _, _)
Res(e, vd, visited) ==
   IF e[1] = "lit" THEN e[2]
   ELSE IF e[1] \in {"var", "varfb"} THEN
        LET v == e[2]
            raw == IF e[1] # "varfb" THEN -1 ELSE IF e[3][1] = "lit" THEN e[3][2] ELSE -2
        IN IF v \in visited THEN raw
           ELSE LET r == IF v \notin DOMAIN vd \/ vd[v][1] = "undef" THEN -1 ELSE Res(vd[v], vd, visited \cup {v})
                IN IF r # -1 THEN r
                   ELSE IF e[1] = "varfb" THEN Res(e[3], vd, visited \cup {v}) ELSE -1
   ELSE -1
\* the stylesheet is built rule by rule (so that TLC can also SIMULATE behaviours: one random stylesheet per run),
\* then frozen as sheet0 and processed
Init == /\ tab = McTab /\ phase = "build" /\ vdef \in [Vars -> VarDefs] /\ rules = <<>> /\ sheet0 = <<>>
        /\ i = 1 /\ acc = 0 /\ tuned = 0 /\ failed = 0 /\ cards = {} /\ failedSel = {} /\ rootDirty = {}
        /\ hackAt = 0 /\ aborted = FALSE
AddRule == /\ phase = "build" /\ Len(rules) < NR
           /\ \E r \in Rules : rules' = Append(rules, r)
           /\ UNCHANGED <<tab, phase, sheet0, vdef, i, acc, tuned, failed, cards, failedSel, rootDirty, hackAt, aborted>>
Start == /\ phase = "build" /\ Len(rules) >= 1
         /\ phase' = "run" /\ sheet0' = <<vdef, rules>>
         /\ hackAt' \in {0} \cup {k \in HackPositions : k <= Len(rules)}
         /\ UNCHANGED <<tab, vdef, rules, i, acc, tuned, failed, cards, failedSel, rootDirty, aborted>>
Process ==
  /\ phase = "run" /\ i <= Len(rules)
  /\ LET r == rules[i] IN
     IF r.col = NoneE THEN UNCHANGED <<vdef, rules, acc, tuned, failed, cards, failedSel, rootDirty>>
     ELSE LET t == Res(r.col, vdef, {})
              b == IF r.bg = "none" THEN "L" ELSE r.bg
              o == IF t < 0 THEN <<"invalid">> ELSE Out(t, b)
          IN CASE o[1] = "invalid" -> /\ failed' = failed + 1 /\ failedSel' = failedSel \cup {i}
                                      /\ UNCHANGED <<vdef, rules, acc, tuned, cards, rootDirty>>
               [] o[1] = "fail"    -> /\ failed' = failed + 1 /\ failedSel' = failedSel \cup {i}
                                      /\ UNCHANGED <<vdef, rules, acc, tuned, cards, rootDirty>>
               [] o[1] = "pass"    -> /\ acc' = acc + 1
                                      /\ UNCHANGED <<vdef, rules, failed, tuned, cards, failedSel, rootDirty>>
               [] o[1] = "tuned"   ->
                    /\ tuned' = tuned + 1 /\ cards' = cards \cup {<<i, o[2], b>>}
                    /\ IF r.col[1] = "var" THEN      \* rewrite the referenced definition (if any)
                          /\ (IF r.col[2] \in DOMAIN vdef /\ vdef[r.col[2]][1] # "undef"
                              THEN vdef' = [vdef EXCEPT ![r.col[2]] = <<"lit", o[2]>>] ELSE UNCHANGED vdef)
                          /\ UNCHANGED <<rules, rootDirty>>
                       ELSE IF r.col[1] = "varfb" THEN
                          IF ~FallbackWritten THEN UNCHANGED <<vdef, rules, rootDirty>>       \* F5 (repaired): nothing written
                          ELSE IF r.col[2] \in DOMAIN vdef /\ vdef[r.col[2]][1] # "undef"
                               THEN /\ vdef' = [vdef EXCEPT ![r.col[2]] = <<"lit", o[2]>>]     \* property defined: its definition
                                    /\ UNCHANGED <<rules, rootDirty>>
                               ELSE /\ rules' = [rules EXCEPT ![i].col = <<"lit", o[2]>>]      \* fallback in effect: the declaration
                                    /\ rootDirty' = IF r.root THEN rootDirty \cup {i} ELSE rootDirty
                                    /\ UNCHANGED vdef
                       ELSE /\ rules' = [rules EXCEPT ![i].col = <<"lit", o[2]>>]
                            /\ rootDirty' = IF r.root THEN rootDirty \cup {i} ELSE rootDirty
                            /\ UNCHANGED vdef
                    /\ UNCHANGED <<acc, failed, failedSel>>
  \* the rule's own declaration list is re-serialised exactly when its colour declaration was rewritten (rules changes at i)
  /\ aborted' = (aborted \/ (~CarryInvalid /\ hackAt = i /\ rules'[i] # rules[i]))
  /\ i' = i + 1 /\ UNCHANGED <<sheet0, phase, tab, hackAt>>
\* post-pass: :root/html rules are re-serialised from the declarations parsed before processing (F4)
Post == /\ phase = "run" /\ i = Len(rules) + 1
        /\ rules' = [k \in 1..Len(rules) |-> IF RootPostOverwrites /\ k \in rootDirty THEN sheet0[2][k] ELSE rules[k]]
        \* (every :root / html rule is re-serialised here, adjusted or not)
        /\ aborted' = (aborted \/ (~CarryInvalid /\ hackAt # 0 /\ rules[hackAt].root))
        /\ i' = i + 1 /\ UNCHANGED <<tab, phase, sheet0, vdef, acc, tuned, failed, cards, failedSel, rootDirty, hackAt>>
Next == AddRule \/ Start \/ Process \/ Post
Spec == Init /\ [][Next]_vars
Done == phase = "run" /\ i = Len(rules) + 2
Eff(k) == Res(rules[k].col, vdef, {})
Colored == {k \in 1..Len(rules) : sheet0[2][k].col # NoneE}
Partition == Done => acc + tuned + failed = Cardinality(Colored)
CardMeetsTarget == Done => \A c \in cards : Out(c[2], c[3])[1] = "pass"
FailedUnchanged == Done => \A k \in failedSel : rules[k] = sheet0[2][k]
\* the colour IN THE WRITTEN FILE (there is none when the file was aborted)
Written(k, c) == ~aborted /\ Eff(k) = c
ReportedIsWritten == Done => \A c \in cards : Written(c[1], c[2])
\* C09: a valid stylesheet always gets its output file
OutputWritten == Done => ~aborted
\* input classes of the known findings
F4(k) == sheet0[2][k].root /\ sheet0[2][k].col[1] = "lit"
F5(k) == sheet0[2][k].col[1] = "varfb"
UsesVar(k, v) == sheet0[2][k].col[1] \in {"var", "varfb"} /\ sheet0[2][k].col[2] = v
\* custom properties on the resolution chain of rule k's text colour (in the INPUT stylesheet)
RECURSIVE ChainOf(_, _)
ChainOf(e, seen) ==
   IF e[1] \in {"var", "varfb"} /\ e[2] \notin seen
   THEN {e[2]} \cup (IF e[2] \in DOMAIN sheet0[1] /\ sheet0[1][e[2]][1] \in {"var", "varfb"} THEN ChainOf(sheet0[1][e[2]], seen \cup {e[2]}) ELSE {})
             \cup (IF e[1] = "varfb" /\ e[3][1] = "var" THEN ChainOf(e[3], seen \cup {e[2]}) ELSE {})
   ELSE {}
\* F6: a LATER rule directly references a custom property on rule k's chain (and so may re-tune it after k was reported).
\* The last rule that uses a property is not in the class: nothing changes under it afterwards.
F6(k) == \E k2 \in (k+1)..Len(rules) : \E v \in ChainOf(sheet0[2][k].col, {}) : UsesVar(k2, v)
\* F4 and F5 are repaired in the code; their classes only matter for the regression configurations
ReportedIsWrittenModuloKnown == Done => \A c \in cards :
   Written(c[1], c[2]) \/ F6(c[1]) \/ (RootPostOverwrites /\ F4(c[1])) \/ (~FallbackWritten /\ F5(c[1]))
ReportedIsWrittenModuloF6 == Done => \A c \in cards : Written(c[1], c[2]) \/ F6(c[1])
====
