---- MODULE CliBatch ----
(***************************************************************************)
(* A directory run of the cm-colors command (C18, C09 file-system half).   *)
(*                                                                         *)
(* State: the directory tree (file slot -> kind), the traversal order (any *)
(* permutation of the discovered files: the tool takes whatever the file   *)
(* system yields), the custom-property table, outputs, reported errors.    *)
(* One action per file: ProcessFile is the body of the tool's per-file     *)
(* try/except (fresh table, parse, rewrite, write) - a faulty file raises  *)
(* inside it and is reported instead.  Two consecutive runs (RunAgain).    *)
(*                                                                         *)
(* File kinds:                                                             *)
(*   "defines"   valid; defines custom property x in :root                 *)
(*   "usesOwn"   valid; defines x and uses it                              *)
(*   "usesOther" valid; uses x but does not define it (only a sibling does)*)
(*   "plain"     valid; literal colours only                               *)
(*   "empty"     valid (no rules)                                          *)
(*   "undecodable" | "dirnamed" | "dangling" | "unserialisable"  faults    *)
(*   "faultDefines" a fault that strikes AFTER the file's custom property  *)
(*               x was collected (unserialisable CSS with a :root block)   *)
(*   "unencodable" | "outdir"  the output cannot be written (write fault)  *)
(*   "cm"        a file whose name ends in _cm.css (never an input)        *)
(*   "none"      slot unused                                               *)
(* SharedTable = TRUE models the regression "table hoisted out of the      *)
(* per-file loop"; the tool as it is has SharedTable = FALSE.              *)
(***************************************************************************)
EXTENDS Integers, Sequences, FiniteSets, TLC, BatchProps
CONSTANTS NF, SharedTable, KeepCmInputs, LeakOnFault
Slots == 1..NF
Valid == ValidKinds
Faults == FaultKinds \cup WriteFaultKinds     \* both raise inside the per-file try/except (parse / serialise / write)
Kinds == Valid \cup Faults \cup {"cm", "none"}

VARIABLES tree, order, pos, table, outs, errs, runNo, outs1
vars == <<tree, order, pos, table, outs, errs, runNo, outs1>>

Discovered(t) == {s \in Slots : t[s] \notin {"none"} /\ (KeepCmInputs \/ t[s] # "cm")}
Perms(S) == {p \in [1..Cardinality(S) -> S] : \A a, b \in 1..Cardinality(S) : a # b => p[a] # p[b]}

\* what processing file kind k yields, given whether x is visible in the table at that moment:
\* an abstract content id (the bytes of <name>_cm.css)
Result(k, xVisible) ==
  CASE k = "defines" -> "D"
    [] k = "usesOwn" -> "UO"
    [] k = "usesOther" -> IF xVisible THEN "UX-leaked" ELSE "UX-alone"
    [] k = "plain" -> "P"
    [] k = "empty" -> "E"
    [] k = "cm" -> "CM-reprocessed"
    [] OTHER -> "?"
Single(k) == Result(k, k \in {"usesOwn", "defines"})       \* the tool run on that file alone

Init == /\ tree \in [Slots -> Kinds] /\ \E s \in Slots : tree[s] \in Valid
        /\ order \in Perms(Discovered(tree))
        /\ pos = 1 /\ table = {} /\ outs = [s \in {} |-> ""] /\ errs = {} /\ runNo = 1 /\ outs1 = <<>>

ProcessFile ==
  /\ pos <= Len(order)
  /\ LET s == order[pos]
         k == tree[s]
         t0 == IF SharedTable \/ LeakOnFault THEN table ELSE {}
         t1 == IF k \in {"defines", "usesOwn", "faultDefines"} THEN t0 \cup {"x"} ELSE t0
     IN IF k \in Faults
        THEN /\ errs' = errs \cup {s} /\ UNCHANGED outs                         \* reported, skipped, run continues
             /\ table' = IF LeakOnFault THEN t1 ELSE table          \* (a shared table cleared only on success keeps x)
        ELSE /\ outs' = [f \in DOMAIN outs \cup {s} |-> IF f = s THEN Result(k, "x" \in t1) ELSE outs[f]]
             /\ table' = (IF LeakOnFault /\ ~SharedTable THEN {} ELSE t1) /\ UNCHANGED errs   \* LeakOnFault: cleared after a successful write
  /\ pos' = pos + 1 /\ UNCHANGED <<tree, order, runNo, outs1>>

\* second run over the same tree: outputs of run 1 now exist as *_cm.css files and are skipped by discovery
RunAgain ==
  /\ pos = Len(order) + 1 /\ runNo = 1
  /\ runNo' = 2 /\ outs1' = outs /\ pos' = 1 /\ table' = {} /\ errs' = {}
  /\ \E p \in Perms(Discovered(tree)) : order' = p
  /\ outs' = [s \in {} |-> ""] /\ UNCHANGED tree

Next == ProcessFile \/ RunAgain
Spec == Init /\ [][Next]_vars
\* generator of abstract trees only (spec -> code direction): the initial states
GenSpec == Init /\ [][UNCHANGED vars]_vars

RunDone == pos = Len(order) + 1
\* C18
HasOut(s) == s \in DOMAIN outs
OutOf(s) == IF HasOut(s) THEN outs[s] ELSE "-"
Isolation == RunDone => \A s \in Discovered(tree) : ~HasOut(s) \/ IsolationP(tree[s], outs[s], Single(tree[s]))
SkipBad == RunDone => \A s \in Discovered(tree) : SkipBadP(tree[s], s \in errs, HasOut(s))
NoCmInput == RunDone => \A s \in Slots : NoCmInputP(tree[s], HasOut(s), s \in errs)
RerunStable == RunDone /\ runNo = 2 => \A s \in Slots : RerunStableP(OutOf(s), IF s \in DOMAIN outs1 THEN outs1[s] ELSE "-")
====
