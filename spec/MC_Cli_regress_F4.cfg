\* regression: the :root/html post-pass before commit 'fix: CLI keeps an adjusted colour declared directly in a :root/html rule'
\* TLC must report ReportedIsWrittenModuloF6 violated
SPECIFICATION Spec
CONSTANTS RootPostOverwrites = TRUE
          FallbackWritten = TRUE
          CarryInvalid = TRUE
          HackPositions = {}
          NR = 2
INVARIANT Partition
INVARIANT CardMeetsTarget
INVARIANT FailedUnchanged
INVARIANT ReportedIsWrittenModuloKnown
INVARIANT ReportedIsWrittenModuloF6
CHECK_DEADLOCK FALSE
