---- MODULE BatchProps ----
(***************************************************************************)
(* Property predicates of directory runs (C18), shared by the design-level *)
(* model CliBatch.tla and the trace specification TrBatch.tla.             *)
(***************************************************************************)
ValidKinds == {"defines", "usesOwn", "usesOther", "plain", "empty"}
FaultKinds == {"undecodable", "dirnamed", "dangling", "unserialisable", "faultDefines", "deepnest"}     \* deepnest: thousands of nested blocks (the CSS library gives up with a RecursionError)
\* files that parse and serialise but whose OUTPUT cannot be written (text that cannot be encoded; the output name is taken
\* by a directory).  The property demands nothing for these files themselves - only that the others are unaffected.
WriteFaultKinds == {"unencodable", "outdir"}
\* a valid stylesheet's output in a directory run is what the tool produces for that file alone
IsolationP(kind, out, single) == kind \in ValidKinds => out = single
\* a faulty file is reported and produces no output; a valid one is processed and not reported
SkipBadP(kind, reported, hasOut) ==
  /\ kind \in FaultKinds => (reported /\ ~hasOut)
  /\ kind \in ValidKinds => (hasOut /\ ~reported)
\* files ending in _cm.css are never taken as inputs of a directory run
NoCmInputP(kind, hasOut, reported) == kind = "cm" => (~hasOut /\ ~reported)
\* repeating the run reproduces the same outputs
RerunStableP(out2, out1) == out2 = out1
====
