"""Shared machinery of the cm-colors verification harness.

* runs TLC on the specification under /verif/spec (design-level model checking and
  batch trace validation), always with scratch state outside /verif and /repo;
* imports the library from /repo's *current working tree*;
* writes evidence files, replay files, VIOLATION / KNOWN-FINDING lines.

Verdict policy (DESIGN.md 2.3): only TLC evaluating a property predicate of the
specification on an observed behaviour can produce a violation.  Exit codes:
0 = everything explored accepted, 1 = unlisted violation, 2 = machinery failure.
"""
import tempfile, os, sys, json, time, re, shutil, subprocess, tempfile, random, concurrent.futures

VERIF = os.path.dirname(os.path.dirname(os.path.abspath(__file__)))
SPEC = os.path.join(VERIF, "spec")
REPO = os.environ.get("VERIF_REPO", "/repo")
TLA_CP = "/opt/veriftools/tla/tla2tools.jar:/opt/veriftools/tla/CommunityModules-deps.jar"
NCPU = int(os.environ.get("VERIF_NCPU", str(os.cpu_count() or 4)))


class MachineryError(Exception):
    pass


def out_root():
    """where evidence and replay files go: /verif itself when the tree under test is /repo (the registered commands); a scratch
    directory when the check is pointed at another tree through VERIF_REPO (seeded changes in scratch worktrees must not
    overwrite the evidence of the real tree)"""
    if os.path.realpath(REPO) == os.path.realpath("/repo"):
        return VERIF
    d = os.path.join(tempfile.gettempdir(), "verif_scratch_out_" + str(abs(hash(os.path.realpath(REPO))) % 10 ** 8))
    os.makedirs(d, exist_ok=True)
    return d


def seed():
    try:
        return int(os.environ.get("VERIF_SEED", "0"))
    except ValueError:
        return 0


def tier(default="quick"):
    t = os.environ.get("VERIF_TIER", default)
    return t if t in ("quick", "thorough") else default


def use_repo():
    """Put /repo's working tree first on sys.path and make sure it is what we import."""
    src = os.path.join(REPO, "src")
    if sys.path[0] != src:
        sys.path.insert(0, src)
    os.environ["CM_COLORS_VERIF"] = "1"
    import cm_colors  # noqa

    f = os.path.abspath(cm_colors.__file__)
    if not f.startswith(os.path.abspath(src) + os.sep):
        raise MachineryError(f"cm_colors imported from {f}, not from {src}")
    return cm_colors


def scratch(prefix="verif_"):
    base = os.environ.get("VERIF_SCRATCH", tempfile.gettempdir())
    return tempfile.mkdtemp(prefix=prefix, dir=base)


# --------------------------------------------------------------------------- TLC

class TlcResult:
    def __init__(self):
        self.ok = False
        self.generated = 0
        self.distinct = 0
        self.error = ""
        self.stdout = ""
        self.wall = 0.0
        self.out = None
        self.rc = None
        self.coverage = {}

    def __repr__(self):
        return f"<TLC ok={self.ok} gen={self.generated} distinct={self.distinct} err={self.error[:200]!r}>"


_STATES_RE = re.compile(r"(\d+) states generated, (\d+) distinct states found")


def run_tlc(module, cfg, env=None, workers=1, timeout=3600, heap="4g", extra=None,
            keep_stdout=20000, want_out=True):
    """Run TLC on spec/<module>.tla with the given cfg (text, or a file name in spec/).
    Returns TlcResult; .out is the JSON written by the spec to IOEnv.OUT_FILE (if any)."""
    tmp = scratch("verif_tlc_")
    res = TlcResult()
    t0 = time.time()
    try:
        if "\n" in cfg or cfg.strip().startswith(("SPECIFICATION", "INIT", "CONSTANT")):
            cfgpath = os.path.join(tmp, module + ".cfg")
            with open(cfgpath, "w") as f:
                f.write(cfg)
        else:
            cfgpath = os.path.join(SPEC, cfg)
        outfile = os.path.join(tmp, "out.json")
        e = dict(os.environ)
        e.pop("JAVA_TOOL_OPTIONS", None)
        e["OUT_FILE"] = outfile
        if env:
            e.update({k: str(v) for k, v in env.items()})
        # (java.io.tmpdir inside the run's own scratch directory: TLC leaves an empty tlc-<n> directory per invocation there)
        cmd = ["java", "-XX:+UseParallelGC", "-Xmx" + heap, "-Djava.io.tmpdir=" + tmp, "-cp", TLA_CP, "tlc2.TLC",
               "-workers", str(workers), "-metadir", os.path.join(tmp, "meta"),
               "-noGenerateSpecTE", "-config", cfgpath]
        if extra:
            cmd += list(extra)
        cmd.append(module + ".tla")
        try:
            p = subprocess.run(cmd, cwd=SPEC, env=e, stdout=subprocess.PIPE,
                               stderr=subprocess.STDOUT, timeout=timeout, text=True)
            res.rc = p.returncode
            out = p.stdout
        except subprocess.TimeoutExpired as ex:
            res.rc = -9
            out = (ex.stdout or b"").decode("utf-8", "replace") if isinstance(ex.stdout, bytes) else (ex.stdout or "")
            res.error = f"timeout after {timeout}s"
        m = None
        for m in _STATES_RE.finditer(out):
            pass
        if m:
            res.generated, res.distinct = int(m.group(1)), int(m.group(2))
        errs = [l for l in out.splitlines() if l.startswith("Error:") or "is violated" in l
                or "Assumption" in l and "is false" in l or "Parse Error" in l
                or "Semantic errors" in l or "Exception" in l]
        if errs and not res.error:
            res.error = " | ".join(errs[:6])
        res.ok = (res.rc == 0 and not res.error and
                  ("Model checking completed. No error has been found." in out
                   or "Finished in" in out and not errs))
        if want_out and os.path.exists(outfile):
            try:
                res.out = json.load(open(outfile))
            except Exception as ex:  # pragma: no cover
                res.error = res.error or f"unreadable OUT_FILE: {ex}"
                res.ok = False
        res.stdout = out[-keep_stdout:]
        # coverage lines: <Action line ..., col ... of module M>: distinct:generated
        for cm in re.finditer(r"^<(\w+) line \d+, col \d+ to line \d+, col \d+ of module (\w+)>: (\d+):(\d+)", out, re.M):
            res.coverage[cm.group(2) + "." + cm.group(1)] = [int(cm.group(3)), int(cm.group(4))]
    finally:
        res.wall = time.time() - t0
        shutil.rmtree(tmp, ignore_errors=True)
    return res


def require_ok(res, what):
    if not res.ok:
        raise MachineryError(f"TLC failed for {what}: rc={res.rc} {res.error}\n{res.stdout[-3000:]}")
    return res


def check_model(module, cfg, workers=None, timeout=3600, heap="8g", extra=None, env=None):
    """Design-level run: all invariants of the cfg must hold on the abstract model."""
    r = run_tlc(module, cfg, workers=workers or NCPU, timeout=timeout, heap=heap, extra=extra,
                env=env, want_out=False)
    return r


def apalache_inductive(module, ind_inv="IndInv", ind_init="IndInit", init="Init", timeout=900):
    """Discharge a one-step inductive invariant with Apalache (symbolic; for models whose real constants are out of TLC's
    reach): Init => IndInv (length 0) and IndInv and Next imply IndInv' (length 1).  Returns wall seconds; raises
    MachineryError unless both runs end with 'The outcome is: NoError'."""
    import subprocess, shutil as _sh
    tmp = scratch("verif_apa_")
    t0 = time.time()
    try:
        for args in (["--init=" + init, "--inv=" + ind_inv, "--length=0"], ["--init=" + ind_init, "--inv=" + ind_inv, "--length=1"]):
            p = subprocess.run(["timeout", str(timeout), "apalache-mc", "check"] + args + ["--out-dir=" + tmp, "--run-dir=" + os.path.join(tmp, "run"), module + ".tla"],
                               cwd=SPEC, capture_output=True, text=True)
            out = p.stdout + p.stderr
            if "The outcome is: NoError" not in out:
                raise MachineryError(f"Apalache did not discharge {ind_inv} of {module} ({' '.join(args)}): {out[-600:]}")
    finally:
        _sh.rmtree(tmp, ignore_errors=True)
    return time.time() - t0


TRACE_CFG = "SPECIFICATION Spec\nPOSTCONDITION KitPost\nCHECK_DEADLOCK FALSE\n"


def validate_traces(module, traces, shards=None, cfg=TRACE_CFG, env=None, timeout=3600,
                    heap="3g", min_per_shard=200):
    """Batch trace validation: `traces` is a list of behaviours (each a list of event dicts).
    The trace spec (EXTENDS TraceKit) consumes one event per state and, per behaviour, adds
    <<tid, fails, incon>> to a register when not clean.  Returns a dict:
      done, bad=[{tid, fails, incon}], counts={..}, generated, distinct, wall
    tid is the 0-based index into `traces`."""
    n = len(traces)
    if n == 0:
        return dict(done=0, bad=[], counts={}, generated=0, distinct=0, wall=0.0)
    if shards is None:
        shards = max(1, min(NCPU, n // min_per_shard))
    size = (n + shards - 1) // shards
    chunks = [(s, traces[s:s + size]) for s in range(0, n, size)]
    tmp = scratch("verif_tr_")
    t0 = time.time()
    try:
        def one(job):
            k, (start, chunk) = job
            path = os.path.join(tmp, f"tr{k}.json")
            with open(path, "w") as f:
                json.dump(chunk, f, separators=(",", ":"))
            e = {"TRACE_FILE": path}
            if env:
                e.update(env)
            r = run_tlc(module, cfg, env=e, workers=1, timeout=timeout, heap=heap)
            return start, len(chunk), r

        with concurrent.futures.ThreadPoolExecutor(max_workers=len(chunks)) as ex:
            results = list(ex.map(one, enumerate(chunks)))
    finally:
        shutil.rmtree(tmp, ignore_errors=True)
    agg = dict(done=0, bad=[], counts={}, generated=0, distinct=0)
    for start, ln, r in results:
        require_ok(r, f"trace validation {module} shard@{start}")
        if r.out is None:
            raise MachineryError(f"{module}: no OUT_FILE written\n{r.stdout[-2000:]}")
        agg["done"] += int(r.out.get("done", 0))
        for item in r.out.get("bad", []):
            tid, fails, incon = item[0], item[1], item[2]
            agg["bad"].append(dict(tid=start + tid - 1, fails=sorted(fails), incon=sorted(incon)))
        for k, v in (r.out.get("cnt") or {}).items():
            agg["counts"][k] = agg["counts"].get(k, 0) + int(v)
        agg["generated"] += r.generated
        agg["distinct"] += r.distinct
    agg["wall"] = time.time() - t0
    if agg["done"] != n:
        raise MachineryError(f"{module}: {agg['done']} of {n} behaviours consumed to the end "
                             "(a trace was cut short: harness/spec mismatch)")
    return agg


def tlc_enumerate(module, cfg, var, workers=None, timeout=3600, heap="8g", env=None):
    """Spec -> code direction: let TLC explore the abstract model `module` exhaustively, dump its state graph and
    return (TlcResult, [value of `var` in every reachable state]).  The caller concretises each abstract value and
    replays it into the implementation."""
    import tlaparse
    tmp = scratch("verif_enum_")
    try:
        dump = os.path.join(tmp, "states.dump")
        r = run_tlc(module, cfg, workers=workers or NCPU, timeout=timeout, heap=heap, env=env, want_out=False,
                    extra=["-dump", dump])
        require_ok(r, f"enumeration {module}")
        vals = [v for v in tlaparse.parse_dump(dump, var) if v is not None]
    finally:
        shutil.rmtree(tmp, ignore_errors=True)
    return r, vals


def tlc_simulate(module, cfg, num, depth, seed_, timeout=600, heap="4g"):
    """Spec -> code direction for models too large to enumerate: TLC's simulation mode writes `num` random behaviours of
    at most `depth` steps; returns the list of behaviours (each a list of state dicts)."""
    import tlaparse, glob
    tmp = scratch("verif_sim_")
    try:
        pat = os.path.join(tmp, "tr")
        r = run_tlc(module, cfg, workers=1, timeout=timeout, heap=heap, want_out=False,
                    extra=["-simulate", f"file={pat},num={num}", "-depth", str(depth), "-seed", str(seed_)])
        if r.rc not in (0,) and "Finished" not in r.stdout:
            require_ok(r, f"simulation {module}")
        behs = [tlaparse.parse_sim_trace(f) for f in sorted(glob.glob(pat + "*"))]
    finally:
        shutil.rmtree(tmp, ignore_errors=True)
    return r, behs


def pinpoint(module, traces, agg, cap=40, want=None):
    """For behaviours whose events are independent observations: re-judge the events of (at most `cap`) failing
    behaviours one by one, in a single batch, to name the offending event.  -> [(tid, index, fails)]"""
    bad = [b for b in agg["bad"] if b["fails"] and (want is None or any(want(f) for f in b["fails"]))]
    chosen = bad[:cap]
    singles, origin = [], []
    for b in chosen:
        for j, e in enumerate(traces[b["tid"]]):
            singles.append([e])
            origin.append((b["tid"], j))
    out = []
    if singles:
        r = validate_traces(module, singles)
        for b2 in r["bad"]:
            if b2["fails"]:
                tid, j = origin[b2["tid"]]
                out.append((tid, j, b2["fails"]))
    return out, max(0, len(bad) - len(chosen))


# --------------------------------------------------------------------------- findings / evidence

def known_findings():
    p = os.path.join(VERIF, "known_findings.json")
    if not os.path.exists(p):
        return {"known": [], "fixed": []}
    return json.load(open(p))


class Report:
    """Collects what a check run covered, prints VIOLATION / KNOWN-FINDING lines, writes evidence."""

    def __init__(self, pid, level="model_checking"):
        self.pid = pid
        self.level = level
        self.t0 = time.time()
        self.states = 0
        self.transitions = 0
        self.traces = 0
        self.evaluations = 0
        self.nontrivial = 0
        self.samples = []
        self.violations = []      # (what, replay_path)
        self.known_hits = {}      # finding id -> count
        self.inconclusive = 0
        self.drift = 0
        self.extra = {}
        self.assumptions = []
        self.models = []          # design-level runs
        self.rule = ""
        self.exhaustive = False
        self._nrep = 0

    def add_model(self, name, r, note=""):
        require_ok(r, f"design-level model {name}")
        self.states += r.distinct
        self.transitions += r.generated
        self.models.append(dict(model=name, distinct_states=r.distinct, states_generated=r.generated,
                                wall_s=round(r.wall, 1), note=note))

    def add_traces(self, agg, n):
        self.states += agg["distinct"]
        self.transitions += agg["generated"]
        self.traces += n
        for k, v in agg.get("counts", {}).items():
            self.extra.setdefault("clause_counts", {})
            self.extra["clause_counts"][k] = self.extra["clause_counts"].get(k, 0) + v

    def sample(self, s, cap=6):
        if len(self.samples) < cap:
            self.samples.append(s)

    def replay_file(self, payload):
        d = os.path.join(out_root(), "replays", self.pid)
        os.makedirs(d, exist_ok=True)
        self._nrep += 1
        p = os.path.join(d, f"{tier()}_{seed()}_{self._nrep}.json")
        with open(p, "w") as f:
            json.dump(payload, f, indent=1, default=str)
        return p

    def violation(self, what, payload, finding=None):
        """finding: id of a listed known finding whose input-class predicate matched, else None."""
        if finding:
            self.known_hits[finding] = self.known_hits.get(finding, 0) + 1
            return
        if len(self.violations) < 25:
            p = self.replay_file(dict(property=self.pid, what=what, tier=tier(), seed=seed(), **payload))
        else:
            p = "(suppressed: more than 25)"
        self.violations.append((what, p))

    def finish(self):
        kf = {k["id"]: k for k in known_findings().get("known", [])}
        for fid, cnt in sorted(self.known_hits.items()):
            desc = kf.get(fid, {}).get("what", fid)
            print(f"KNOWN-FINDING: property={self.pid} {fid}: {desc} ({cnt} occurrence(s) this run)")
        for what, p in self.violations[:25]:
            print(f"VIOLATION property={self.pid} replay={p}  # {what}")
        if len(self.violations) > 25:
            print(f"... {len(self.violations) - 25} more violations not listed")
        cov = dict(
            states=max(1, self.states), transitions=max(1, self.transitions),
            traces_validated_against_impl=self.traces,
            samples=self.samples or ["(no sample recorded)"],
            evaluations=max(self.evaluations, self.traces),
            distinct_nontrivial=self.nontrivial,
            rule=self.rule,
            design_level_models=self.models,
            inconclusive=self.inconclusive,
            drift=self.drift,
            known_finding_hits=self.known_hits,
            exhaustive=self.exhaustive,
        )
        cov.update(self.extra)
        ev = dict(property_id=self.pid, tier=tier(), seed=seed(), level=self.level, coverage=cov,
                  assumptions=self.assumptions, wall_s=round(time.time() - self.t0, 1),
                  violations=len(self.violations))
        os.makedirs(os.path.join(out_root(), "evidence"), exist_ok=True)
        with open(os.path.join(out_root(), "evidence", f"{self.pid}.json"), "w") as f:
            json.dump(ev, f, indent=1, default=str)
        print(f"[{self.pid}] tier={tier()} seed={seed()} states={self.states} traces={self.traces} "
              f"evaluations={cov['evaluations']} inconclusive={self.inconclusive} "
              f"violations={len(self.violations)} wall={ev['wall_s']}s")
        return 1 if self.violations else 0


def main_wrapper(fn):
    """Run a check's main(); map machinery failures to exit 2 without a VIOLATION line."""
    try:
        rc = fn()
    except MachineryError as ex:
        print(f"MACHINERY-FAILURE: {ex}", file=sys.stderr)
        sys.exit(2)
    except Exception:
        import traceback
        traceback.print_exc()
        print("MACHINERY-FAILURE: unexpected exception in harness", file=sys.stderr)
        sys.exit(2)
    sys.exit(rc)


def pool_map(fn, items, procs=None, chunksize=None):
    """multiprocessing map (fork) that keeps order."""
    import multiprocessing as mp
    procs = procs or NCPU
    if len(items) == 0:
        return []
    ctx = mp.get_context("fork")
    with ctx.Pool(min(procs, max(1, len(items)))) as p:
        # a worker that dies while unpickling its task makes Pool.map wait for ever: bound the wait (machinery failure, exit 2)
        res = p.map_async(fn, items, chunksize or max(1, len(items) // (procs * 8)))
        try:
            return res.get(timeout=float(os.environ.get("VERIF_POOL_TIMEOUT", "14400")))
        except mp.TimeoutError:
            raise MachineryError(f"worker pool did not finish {getattr(fn, '__name__', fn)} over {len(items)} items in time")
