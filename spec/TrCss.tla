---- MODULE TrCss ----
(***************************************************************************)
(* C07 / C13 (value level): observations of the library's colour parser on *)
(* CSS spellings built by the harness from abstract values; TLC computes   *)
(* the colour CSS defines from the abstract value (CssColor.tla) and       *)
(* judges the observation.  "R_" clauses calibrate the harness' own CSS    *)
(* reader against the same definition (machinery, not a property).         *)
(***************************************************************************)
EXTENDS CssColor, TraceKit

VARIABLES tid, i, fails, incon, nt
vars == <<tid, i, fails, incon, nt>>
Init == tid \in 1..NTraces /\ i = 1 /\ fails = {} /\ incon = {} /\ nt = 0
Ev == Traces[tid][i]

Expected(e) ==
  CASE e.k = "hex3" -> Hex3(e.d)
    [] e.k = "hex6" -> Exactly(<<HexByte(e.d[1], e.d[2]), HexByte(e.d[3], e.d[4]), HexByte(e.d[5], e.d[6])>>)
    [] e.k = "named" -> Named(e.name)
    [] e.k = "rgbint" -> Exactly(e.v)
    [] e.k = "tuple" -> Exactly(e.v)
    [] e.k = "rgbpct" -> RgbPct(e.p)
    [] e.k = "hsl" -> HslToRgb(e.h, e.s, e.l)

ObsOk(e) == e.obs # <<>> /\ IsRgb(e.obs)

OpaqueFails(e) ==
  IF ~ObsOk(e) THEN {"C07_Rejected_" \o e.k}
  ELSE IF Admits(Expected(e), e.obs) THEN {} ELSE {"C07_Value_" \o e.k}

\* translucent: foreground fg (rgb ints, or hsl), alpha an/ad, background bg (opaque 8-bit)
TranslucentFails(e) ==
  IF ~ObsOk(e) THEN {"C07_Rejected_" \o e.k}
  ELSE IF e.k = "rgba"
       THEN (IF WithinBlend(e.obs, e.v, e.an, e.ad, e.bg) THEN {} ELSE {"C07_Composite_rgba"})
       ELSE (IF WithinBlendMilli(e.obs, HslMilli(e.h, e.s, e.l), e.an, e.ad, e.bg) THEN {} ELSE {"C07_Composite_hsla"})
     \cup (IF e.an = e.ad /\ e.k = "rgba" /\ e.obs # e.v THEN {"C07_AlphaOne"} ELSE {})
     \cup (IF e.an = e.ad /\ e.k = "hsla" /\ ~Admits(HslToRgb(e.h, e.s, e.l), e.obs) THEN {"C07_AlphaOne"} ELSE {})

\* calibration of the harness CSS reader: its admissible sets (as <<lo, hi>> per channel) equal the spec's
RefFails(e) ==
  LET x == Expected([e EXCEPT !.k = e.of])
  IN IF \A c \in 1..3 : x[c] = (e.lo[c])..(e.hi[c]) THEN {} ELSE {"R_CssRefCalibration_" \o e.of}

Observe ==
  /\ i <= Len(Traces[tid])
  /\ fails' = fails \cup (CASE Ev.k \in {"rgba", "hsla"} -> TranslucentFails(Ev)
                            [] Ev.k = "ref" -> RefFails(Ev)
                            [] OTHER -> OpaqueFails(Ev))
  /\ nt' = nt + 1
  /\ i' = i + 1 /\ UNCHANGED <<tid, incon>>
Finish == /\ i = Len(Traces[tid]) + 1 /\ KitFinish(tid, fails, incon) /\ KitCount("observations", nt)
          /\ i' = i + 1 /\ UNCHANGED <<tid, fails, incon, nt>>
Next == Observe \/ Finish
Spec == Init /\ [][Next]_vars
====
