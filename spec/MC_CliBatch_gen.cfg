SPECIFICATION GenSpec
CONSTANTS NF = 3
          SharedTable = FALSE
          KeepCmInputs = FALSE
CHECK_DEADLOCK FALSE
