"""C17 - no output or files unless asked; previews and reports never change the result.

Api.tla: Quiet, OnlyReport, and SameResult as the instance of FixPure whose key ignores show/save_report.
Spec -> code: TLC enumerates spelling class x outcome x mode x very_readable x visibility (QuietCases.tla); each case is bound
to concrete pairs and executed in a scratch working directory with stdout/stderr captured at file-descriptor level and a
before/after directory listing (names, sizes, mtimes); TrApi.tla judges every recorded operation.
"""
import os, sys, random, json, tempfile, atexit, shutil, subprocess
sys.path.insert(0, os.path.dirname(os.path.abspath(__file__)))
import vlib, apirec, pairs, refs
from c06 import spell_variant

PID = "C17"
E = apirec.enc
_CWD = None
_STALE = False


def _scratch_cwd():
    global _CWD
    if _CWD is None:
        _CWD = tempfile.mkdtemp(prefix="verif_c17_")
        atexit.register(shutil.rmtree, _CWD, True)
        apirec.EnvWatch.root = _CWD          # the whole scratch area is watched, the working directory is a sub-directory of it
    os.makedirs(os.path.join(_CWD, "a"), exist_ok=True)
    os.chdir(os.path.join(_CWD, "a"))
    # bystander files next to where the reports go (temporary / backup names of the reports, an unrelated note): the report is
    # the ONLY file a report request writes - these must be neither written, renamed nor removed
    for nm in ("cm_colors_quick_report.html.tmp", "cm_colors_bulk_report.html.tmp", "cm_colors_quick_report.html.bak", "cm_colors_bulk_report.html~",
               ".cm_colors_bulk_report.html.swp", "cm_colors_report.html", "notes.txt"):
        if not os.path.exists(nm):
            with open(nm, "w") as f:
                f.write("bystander\n")
    # stale reports of an earlier session that are not valid UTF-8 (re-saved as UTF-16 / cut off inside a multi-byte character):
    # a report request replaces them - it has no business reading them
    global _STALE
    if not _STALE:
        _STALE = True
        with open("cm_colors_quick_report.html", "wb") as f:
            f.write("<html>old \u2192 report</html>".encode("utf-16"))
        with open("cm_colors_bulk_report.html", "wb") as f:
            f.write("<html>old ".encode("utf-8") + b"\xe2\x86")
    return _CWD


def _case(job):
    c, seed = job
    rnd = random.Random(seed)
    _scratch_cwd()
    out = c["outcome"]
    vr = bool(c["vr"])
    large = bool(c.get("large", False))
    req = pairs.REQ[(large, vr)]
    if out == "unchanged":
        a, b = pairs.near_threshold(rnd, 7.0, (-0.8, -0.05)) if rnd.random() < 0.5 else pairs.near_threshold(rnd, req, (-0.25, -0.02))
    elif out == "fixed":
        a, b = pairs.near_threshold(rnd, req, (0.01, 0.12))
    else:
        a, b = pairs.near_background(rnd)
        if rnd.random() < 0.3:
            a, b = (128, 128, 128), (120, 120, 120)
        elif vr and not large and rnd.random() < 0.45:
            # the text already IS the better extreme for its background and still misses 7.0 (nothing can be gained)
            g_ = rnd.randrange(96, 142)
            b = (g_, g_, g_)
            a = (0, 0, 0) if refs.wcag_ratio((0, 0, 0), b) >= refs.wcag_ratio((255, 255, 255), b) else (255, 255, 255)
    text = spell_variant(a, c["spell"], seed, rnd)
    bg = pairs.spell(b, rnd.choice(["tuple", "hex6", "rgbfn", "list", "named" if False else "hexupper"]), rnd)
    vis = c["vis"]
    show, save = vis in (1, 3), vis in (2, 3)
    m = c["mode"]
    ops = [["new", 1, E(text), E(bg), large], ["readable", 1], ["fix", 1, m, vr, False, False]]
    if vis:
        ops.append(["fix", 1, m, vr, show, save])
        ops.append(["new", 2, E(text), E(bg), large])
        ops.append(["fix", 2, m, vr, show, save])      # visible call FIRST on a fresh object, then the plain one
        ops.append(["fix", 2, m, vr, False, False])
    ops.append(["fix", 1, m, vr, False, False])
    if vis and seed % 3 == 0:
        # the working directory changes between constructing the pair and asking for the report: "the working directory" is
        # the one at the time of the call
        # (the other directory's path contains square brackets and a slash between them: ".../reports[/v2]" - text that a
        #  console-markup renderer would take for a closing tag)
        ops.append(["chdir", "b" if seed % 2 else "reports[/v2]"])
        ops.append(["fix", 1, m, vr, show, save])
        if save:
            ops.append(["bulk", [[E(text), E(bg), large]], m, vr, True, "list"])
        ops.append(["chdir", "a"])
    ents = [[E(text), E(bg), large], [E("#777777"), E("#ffffff"), True], [E("bogus"), E("#fff")], [E(text), E(bg), large],
            [E(list(a)), E(list(b))], [E([a[0], a[1], a[2], 0.5]), E(bg)]]
    if save and seed % 2:
        # nothing to report: an empty list, and a list of entries that are all invalid
        ops.append(["bulk", [], m, vr, True, "list"])
        ops.append(["bulk", [[E("bogus"), E("#fff")], [E((300, 0, 0)), E("nope"), True]], m, vr, True, "list"])
    how = ("list", "tuple", "iter", "gen")[seed % 4]       # the entries as a list, a tuple, or a one-shot iterator
    ops.append(["bulk", ents, m, vr, False, how])
    if save:
        ops.append(["bulk", ents, m, vr, True, how])
        ops.append(["bulk", ents, m, vr, False, "list"])
    raw = apirec.run_ops(ops, observe_env=True)
    return raw, (text, bg)


def import_event():
    d = tempfile.mkdtemp(prefix="verif_imp_")
    try:
        e = dict(os.environ)
        e["PYTHONPATH"] = os.path.join(vlib.REPO, "src")
        e["PYTHONDONTWRITEBYTECODE"] = "1"
        p = subprocess.run([sys.executable, "-c", "import cm_colors, cm_colors.core.optimisation, cm_colors.core.colors, cm_colors.core.cm_colors"],
                           cwd=d, env=e, capture_output=True, timeout=120)
        files = sorted(os.listdir(d))
        return {"op": "import", "raised": "" if p.returncode == 0 else "exit%d" % p.returncode, "dout": len(p.stdout) + len(p.stderr),
                "newFiles": files}
    finally:
        shutil.rmtree(d, ignore_errors=True)


def main():
    t = vlib.tier()
    rnd = random.Random(vlib.seed() * 982451653 + 17)
    rep = vlib.Report(PID)
    rep.assumptions = ["TLC/SANY", "stdout/stderr observed at file-descriptor level; files observed by listing the scratch working directory"]
    rep.rule = ("13 spelling classes x {unchanged, fixed, failed} x 3 modes x very_readable x {plain, show, save_report, both} as enumerated by "
                "TLC from QuietCases.tla (quick: seeded sample), each on fresh concrete pairs; distinct = distinct case")
    rep.add_model("MC_Api(Depth=4)", vlib.check_model("MC_Api", "MC_Api.cfg", timeout=900), "QuietHistory, FilesOnlyDocumented on the API state machine")
    r, cases = vlib.tlc_enumerate("QuietCases", "MC_QuietCases.cfg", "c")
    rep.add_model("QuietCases generator", r, "abstract cases replayed into the implementation")
    rep.extra["cases_enumerated_by_tlc"] = len(cases)
    n = 420 if t == "quick" else len(cases) * 2
    chosen = [cases[k % len(cases)] for k in rnd.sample(range(len(cases) * 3), min(n, len(cases) * 3))]
    jobs = [(c, rnd.randrange(1 << 30)) for c in chosen]
    res = vlib.pool_map(_case, jobs, chunksize=3)
    keys, cols = apirec.Interner(), apirec.Interner()
    traces = [apirec.to_events(raw, keys, cols) for raw, _ in res]
    traces.append([import_event()])
    # a long history in one (fresh) process whose limit on open files is lowered to 96: 130 report-writing calls (show / save /
    # both, single and bulk) - each must behave like the first (nothing a call acquires may be kept)
    long_ops = [["rlimit", 96], ["new", 1, E("#777777"), E("#ffffff"), False], ["fix", 1, 1, False, False, False],
                ["new", 2, E((120, 120, 125)), E("rgb(250, 250, 250)"), True], ["fix", 2, 2, True, False, False]]
    for j in range(110 if t == "quick" else 400):
        long_ops.append(["fix", 1 + j % 2, 1 + j % 2, bool(j % 2), j % 3 == 0, True])
    for j in range(20 if t == "quick" else 80):
        long_ops.append(["bulk", [[E("#777777"), E("#ffffff")], [E("#888888"), E("#000000"), True]], j % 3, False, True])
    long_ops.append(["fix", 1, 1, False, False, False])
    long_raw = apirec.run_fresh(long_ops, hashseed="0", observe_env=True)
    traces.append(apirec.to_events(long_raw, keys, cols))
    rep.extra["long_history_calls_under_lowered_fd_limit"] = len(long_ops) - 1
    # a process in which the library was first imported under a temporary stdout that has been closed since: previews still work
    imp_ops = [["new", 1, E("#777777"), E("#ffffff"), False], ["fix", 1, 1, False, False, False], ["fix", 1, 1, False, True, False],
               ["new", 2, E("#808080"), E("#808080"), False], ["fix", 2, 1, False, False, False], ["fix", 2, 1, False, True, True],
               ["new", 3, E("rgb(200, 200, 200)"), E("white"), True], ["fix", 3, 2, True, False, False], ["fix", 3, 2, True, True, False],
               ["bulk", [[E("#777777"), E("#ffffff")]], 1, False, True]]
    imp_raw = apirec.run_fresh(imp_ops, hashseed="0", observe_env=True, env_extra={"VERIF_IMPORT_UNDER_TMP_STDOUT": "1"})
    traces.append(apirec.to_events(imp_raw, keys, cols))
    # a process whose report names are taken by directories (the report cannot be written) and whose temporary directory lies
    # inside the watched area: a call may pass the OS's error on; one that returns gives the plain answer, and no file appears
    # anywhere - not under another name, not in the temporary directory
    f_ents = [[E("#777777"), E("#ffffff")], [E("#888888"), E("#000000"), True], [E("bogus"), E("#fff")]]
    fault_ops = [["tmpdir", "tmp"], ["chdir", "blocked"], ["block", "cm_colors_quick_report.html"], ["block", "cm_colors_bulk_report.html"],
                 ["new", 1, E("#777777"), E("#ffffff"), False], ["fix", 1, 1, False, False, False], ["fix", 1, 1, False, False, True],
                 ["fix", 1, 1, False, True, True], ["fix", 1, 1, False, False, False],
                 ["new", 2, E("#000000"), E("#ffffff"), False], ["fix", 2, 1, False, False, True], ["fix", 2, 1, False, False, False],
                 ["new", 3, E("rgb(120, 120, 125)"), E("rgb(250, 250, 250)"), True], ["fix", 3, 2, True, False, True], ["fix", 3, 2, True, False, False],
                 ["new", 4, E("#808080"), E("#828282"), False], ["fix", 4, 0, False, False, True], ["fix", 4, 0, False, False, False],
                 ["bulk", f_ents, 1, False, False], ["bulk", f_ents, 1, False, True], ["bulk", f_ents, 1, False, False],
                 ["chdir", "a"], ["fix", 1, 1, False, False, True], ["bulk", f_ents, 1, False, True]]
    fault_raw = apirec.run_fresh(fault_ops, hashseed="0", observe_env=True)
    traces.append(apirec.to_events(fault_raw, keys, cols))
    rep.extra["report_write_fault_history"] = {"calls": len(fault_ops), "raised": sum(1 for e in fault_raw if e.get("fault") and e.get("raised")),
                                                "returned": sum(1 for e in fault_raw if e.get("fault") and not e.get("raised"))}
    agg = vlib.validate_traces("TrApi", traces, min_per_shard=30)
    rep.add_traces(agg, len(traces))
    rep.evaluations = sum(len(tr) for tr in traces)
    rep.nontrivial = len({json.dumps(c, sort_keys=True) for c in chosen})
    oc = {}
    for (c, _), tr in zip(jobs, traces):
        fx = [e for e in tr if e["op"] == "fix"]
        if fx:
            got = "unchanged" if fx[0]["ok"] and not any(True for _ in ()) else ("fixed" if fx[0]["ok"] else "failed")
            oc[got] = oc.get(got, 0) + 1
    rep.extra["plain_results_ok_vs_failed"] = oc
    rep.sample({"case": jobs[0][0], "input": repr(res[0][1]), "events": [e for e in traces[0] if e["op"] == "fix"][:2]})
    rep.sample({"import_event": traces[-1][0]})
    for bad in agg["bad"]:
        mine = [f for f in bad["fails"] if f.startswith("C17_")]
        if mine:
            tid = bad["tid"]
            src = {"case": jobs[tid][0], "input": repr(res[tid][1])} if tid < len(jobs) else {"case": ("import cm_colors in a fresh interpreter", "long history of report-writing calls in a fresh interpreter with RLIMIT_NOFILE = 96", "library first imported under a temporary stdout that was closed afterwards", "report names taken by directories, temporary directory watched")[min(3, tid - len(jobs))]}
            rep.violation("/".join(mine), dict(src, behaviour=traces[tid],
                          reproduce="run the operations of `behaviour` in an empty working directory; dout = bytes on stdout+stderr, newFiles/modFiles = directory diff"))
    return rep.finish()


if __name__ == "__main__":
    vlib.main_wrapper(main)
