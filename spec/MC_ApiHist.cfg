SPECIFICATION Spec
CONSTANTS Depth = 3
          NP = 2
          Vis = {0}
          Modes = {0, 1, 2}
          WithCli = TRUE
CHECK_DEADLOCK FALSE
