SPECIFICATION Spec
CONSTANTS MaxSeg = 4
          JoinAllSuffixes = FALSE
INVARIANT NeverReconsumed
INVARIANT NeverOverwritesInput
CHECK_DEADLOCK FALSE
