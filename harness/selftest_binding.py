"""Negative controls of the binding (run by setup.sh): for each trace specification a genuine recording of the real code
is validated (must be clean), then ONE recorded field is corrupted and TLC must reject the behaviour naming the expected
clause.  A trace specification that only constrained the length of the trace - or a harness that dropped TLC's verdict -
would fail here.  The controls say nothing about the code under test: when a genuine recording cannot be obtained or is
itself rejected (the tree under test is broken - the property's own check reports that), the control is skipped with a note.
Exit 0 unless a CORRUPTED recording is accepted (exit 2: the machinery is broken)."""
import os, sys, copy, random
sys.path.insert(0, os.path.dirname(os.path.abspath(__file__)))
import vlib


class Skip(Exception):
    pass


def expect(name, module, clean, corrupted, clause, **kw):
    a = vlib.validate_traces(module, [clean], shards=1, **kw)
    bad = [b for b in a["bad"] if b["fails"]]
    if a["done"] != 1 or bad:
        raise Skip(f"the genuine recording is itself rejected ({bad}) - left to the property's own check")
    b = vlib.validate_traces(module, [corrupted], shards=1, **kw)
    fails = [f for x in b["bad"] for f in x["fails"]]
    if clause not in fails:
        raise vlib.MachineryError(f"binding self-test {name}: corrupted recording not rejected with {clause} (got {fails})")
    print(f"binding self-test {name}: genuine accepted, corrupted rejected by {clause}")


def main():
    vlib.use_repo()
    rnd = random.Random(7)
    controls = []
    import pairs
    def control_0():
        # TrPair: a real make_readable run; flip the success flag
        beh = pairs.record_one(dict(text=(119, 119, 119), bg=(255, 255, 255), large=False, spell="tuple", runs=[(1, False)]))
        bad = copy.deepcopy(beh)
        bad[1]["ok"] = not bad[1]["ok"]
        expect("TrPair/flag", "TrPair", beh, bad, "C01_FlagExact")
    controls.append(control_0)
    def control_1():
        # TrPair: pretend the returned colour is lower in contrast than the original
        beh = pairs.record_one(dict(text=(119, 119, 119), bg=(255, 255, 255), large=False, spell="tuple", runs=[(1, False)]))
        bad = copy.deepcopy(beh)
        bad[1]["css"] = [140, 140, 140]
        bad[1]["lib"] = [140, 140, 140]
        expect("TrPair/harm", "TrPair", beh, bad, "C02_NoHarm")
    controls.append(control_1)
    def control_2():
        # TrWcag: a real luminance observation; shift it by 5e-8
        from cm_colors.core.contrast import calculate_relative_luminance as L, calculate_contrast_ratio as R
        import math
        c = (18, 52, 86)
        ob = {"k": "lum", "c": list(c), "l8": int(math.floor(L(c) * 1e8))}
        expect("TrWcag/lum", "TrWcag", [ob], [dict(ob, l8=ob["l8"] + 5)], "Lum")
        a, b = (119, 119, 119), (255, 255, 255)
        ob = {"k": "ratio", "a": list(a), "b": list(b), "ab6": int(math.floor(R(a, b) * 1e6)), "ba6": int(math.floor(R(b, a) * 1e6))}
        expect("TrWcag/ratio", "TrWcag", [ob], [dict(ob, ba6=ob["ba6"] + 40)], "RatioSymmetric")
    controls.append(control_2)
    def control_3():
        # TrSearch: a real call of the lightness search; claim a smaller tolerance than the move it made
        import c04
        ev = c04._call(("bsl", (119, 119, 119), (255, 255, 255), 3.0, 4.5, False))
        if ev and ev.get("out") and ev["out"] != ev["in"]:
            expect("TrSearch/cap", "TrSearch", [ev], [dict(ev, cap4=max(1, ev["de4"] - 500))], "C04_SearchBounded")
    controls.append(control_3)
    def control_4():
        # TrBatch: a real two-file directory run; pretend one output differs from the file's solo output
        import c18
        evs, _info = c18.one_tree((("plain", "usesOwn", "none"), 5, (1, False, None)))
        bad = copy.deepcopy(evs)
        bad[0]["files"][0]["single"] = bad[0]["files"][0]["single"] + 50
        expect("TrBatch/isolation", "TrBatch", evs, bad, "C18_Isolation", min_per_shard=1)
    controls.append(control_4)
    def control_5():
        # TrApi: a real history new / fix / fix on one object; pretend the repeated call returned something else
        import apirec
        E = apirec.enc
        raw = apirec.run_ops([["new", 1, E("#777777"), E("#ffffff"), False], ["fix", 1, 1, False, False, False], ["fix", 1, 1, False, False, False]])
        tr = apirec.to_events(raw, apirec.Interner(), apirec.Interner())
        bad = copy.deepcopy(tr)
        bad[2]["res"] = bad[2]["res"] + 7
        expect("TrApi/pure", "TrApi", tr, bad, "C15_FixPure", min_per_shard=1)
    controls.append(control_5)
    def control_6():
        # TrCli: a real run of the command on a small stylesheet; pretend the written file holds another colour than reported
        import clichecks
        beh, _info = clichecks.one_sheet((11, (1, False, None), {"positional": (1, 1, 1, False)}))
        k = next((j for j, e in enumerate(beh) if e.get("e") == "rule" and e.get("cat") == "card" and e.get("known") == "" and e.get("written")), None)
        if k is None:
            raise vlib.MachineryError("binding self-test TrCli: no adjusted rule in the control stylesheet")
        bad = copy.deepcopy(beh)
        bad[k]["written"] = [1, 2, 3]
        expect("TrCli/written", "TrCli", beh, bad, "C08_ReportedIsWritten", min_per_shard=1)



    controls.append(control_6)
    for c_ in controls:
        try:
            c_()
        except vlib.MachineryError:
            raise
        except Exception as ex:
            print(f"binding self-test {c_.__name__}: skipped - {type(ex).__name__}: {str(ex)[:200]}")
    return 0

if __name__ == "__main__":
    try:
        sys.exit(main())
    except vlib.MachineryError as ex:
        print("MACHINERY-FAILURE:", ex)
        sys.exit(2)
