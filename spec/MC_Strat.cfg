SPECIFICATION Spec
CONSTANTS NC = 3
          NL = 4
          MaxIter1 = 2
          MaxIter2 = 3
          StrictCap = 3
          StepCap = 2
          RelaxedCap = 4
          DeTop = 5
INVARIANT C01_FlagExact
INVARIANT C02_NoHarm
INVARIANT C02_AlreadyOk
INVARIANT C04_StrictCap
INVARIANT C16a_Mode2CoversMode1
CHECK_DEADLOCK FALSE
