"""C15 - results are pure functions of the arguments: no history or thread dependence.

Api.tla has no library state; its history variable `memo` (arguments -> first observed result) must never be
contradicted (FixPure / ReadablePure / ConstructPure / BulkIsMap), and make_readable must leave the object as it was.
Spec -> code: TLC enumerates all API histories up to a depth from ApiHist.tla; the harness binds the abstract pair slots to
concrete pairs, executes each history in-process, prepends reference observations of every (pair, settings) taken in FRESH
interpreter processes (two hash seeds), and TrApi.tla validates the merged behaviour.  Threads: a fixed workload is run
from 4 threads and the merged log is validated the same way.
"""
import os, sys, random, json, time, threading, concurrent.futures
sys.path.insert(0, os.path.dirname(os.path.abspath(__file__)))
import vlib, apirec, pairs, refs

PID = "C15"
E = apirec.enc
SHEET = ":root{--c:#777777} .a{color:var(--c);background-color:#ffffff} .b{color:#888888} @media print{.c{color:#999999;background-color:#eeeeee}}"


def bindings(rnd, n):
    out = []
    fixed = [
        (("#767676", "#ffffff", False), ("#ffffff", "#ffffff", False)),           # readable-not-very ; unfixable (mode-2 fallback)
        (((255, 255, 255, 0.45), "#000000", False), ((255, 255, 255, 0.45), "#ffffff", False)),   # same RGBA tuple, two backgrounds
        (("rgba(10, 20, 30, 0.25)", (0, 0, 0), False), ("rgba(10, 20, 30, 0.25)", (250, 250, 250), False)),
        (("#999999", "#ffffff", False), ("#808080", "#808080", True)),
        (("#888888", "#ffffff", False), ("#bbbbbb", "#ffffff", True)),
        (("hsl(0, 0%, 50%)", "rgb(120, 120, 120)", False), ("#aaaaaa", "#ffffff", False)),
        # spellings that compare equal but denote different colours (1 == 1.0 == True)
        (("#333333", (1.0, 1.0, 1.0), False), ("#010101", "#ffffff", False)),
        (((1, 1, 1), (1.0, 1.0, 1.0), False), ((1.0, 1.0, 1.0), (0, 0, 0), True)),
        (((True, True, True), "#ffffff", False), ((0.0, 0.0, 1.0), (0, 0, 1), False)),
        # translucent BACKGROUNDS (composited over white, whatever ran before); rounding ties in percentages
        (("#777777", "rgba(255,255,255,0.5)", False), ("#cccccc", (0, 0, 0, 0.5), False)),
        (("rgb(30%, 30%, 30%)", "#ffffff", False), ("rgb(70%, 70%, 70%)", "#000000", False)),
        (("rgb(10%, 50%, 90%)", "#ffffff", True), ("#222222", "rgb(30%, 70%, 30%)", False)),
        # a sequence and the informal string spelled exactly like its repr / str
        (((0.6, 0.6, 0.6), "white", False), ("(0.6, 0.6, 0.6)", "white", False)),
        (((200.0, 0.5, 0.5), "#ffffff", False), ("(200.0, 0.5, 0.5)", "#ffffff", False)),
        (([119, 119, 119], "#ffffff", False), ("[119, 119, 119]", "#ffffff", False)),
        # list-spelled colours with numeric-string components (the caller's list must come back as it went in; the same list
        # object is used wherever the history names this pair)
        ((["255", "1", "1"], "#ffffff", False), (["0.4", "0.4", "0.4"], [20, 20, 20], True)),
        ((["119", "119", "119"], ["255", "255", "255"], False), ([1, "0.5%", "1"], "#ffffff", False)),
        # CSS-wide / special keywords that are NOT colours of this library: invalid in a fresh interpreter, so invalid always
        (("#777777", "transparent", False), ("transparent", "#ffffff", False)),
        (("currentcolor", "#ffffff", False), ("#777777", "TRANSPARENT", True)),
        (("inherit", "#000000", False), ("#888888", "initial", False)),
    ]
    out += fixed
    # pairs a hair ABOVE a threshold (within 3e-7; chromatic colours): asking for more first and for less afterwards, on the same
    # object or on a new one, must not move the verdict - whatever the first request left behind
    for tq in (4.5, 4.5, 7.0, 3.0):
        for _try in range(50):
            a_, b_ = pairs.razor(rnd, tq, "above")
            if len(set(a_)) > 1 and len(set(b_)) > 1:
                break
        out.append(((pairs.hexs(a_), pairs.hexs(b_), tq == 3.0), (pairs.hexs(b_), pairs.hexs(a_), tq == 3.0)))
    # rgba written with a blank before the bracket / without brackets (informal, accepted): which branch names the format must
    # not depend on the iteration order of a set
    out.append((("rgba (120, 120, 120, 0.9)", "#ffffff", False), ("RGBA 200 30 30 50%", "#ffffff", False)))
    out.append((("rgb (119, 119, 119)", "#ffffff", False), ("rgba (20, 20, 20, 1)", "#777777", True)))
    n_edge = [0]
    while len(out) < n:
        if n_edge[0] < 6:
            n_edge[0] += 1
            # fixes that run into the edge of the gamut and fail there (light text on a mid-tone saturated background that not even
            # white could clear; dark text likewise): the search ends on a flat piece of its cost surface
            for _try in range(200):
                b = pairs.rand_colour(rnd)
                lb = refs.wcag_lum(b)
                a = tuple(rnd.randrange(170, 256) for _ in range(3)) if _try % 2 else tuple(rnd.randrange(0, 70) for _ in range(3))
                if (0.22 <= lb <= 0.42 and refs.wcag_lum(a) > 0.6) or (0.10 <= lb <= 0.17 and refs.wcag_lum(a) < 0.03):
                    break
            c, d = pairs.near_threshold(rnd, rnd.choice((3.0, 4.5, 7.0)), (0.0, 0.3))
            out.append(((pairs.hexs(a), pairs.hexs(b), False), (c, d, bool(rnd.getrandbits(1)))))
            continue
        a, b = pairs.near_background(rnd) if rnd.random() < 0.5 else pairs.near_threshold(rnd, rnd.choice((3.0, 4.5, 7.0)), (0.0, 0.35))
        c, d = pairs.near_threshold(rnd, rnd.choice((3.0, 4.5, 7.0)), (0.0, 0.3))
        out.append(((pairs.hexs(a), pairs.hexs(b), bool(rnd.getrandbits(1))), (c, d, bool(rnd.getrandbits(1)))))
    return out[:n]


def concretise(hist, bind):
    """abstract history (from ApiHist.tla) -> op list for apirec.run_ops + {keyrepr: (text,bg,large)}"""
    ops = []
    keymap = {}
    latest = {}
    nobj = 0

    def need(slot):
        nonlocal nobj
        if slot not in latest:
            nobj += 1
            t, b, lg = bind[slot - 1]
            ops.append(["new", nobj, E(t), E(b), lg])
            keymap[apirec.krepr("pair", t, b, lg)] = (t, b, lg)
            latest[slot] = nobj
        return latest[slot]

    for op in hist:
        kind = op[0]
        if kind == "new":
            latest.pop(op[1], None)
            need(op[1])
        elif kind == "readable":
            ops.append(["readable", need(op[1])])
        elif kind == "fix":
            _, p, m, v, vis = op
            ops.append(["fix", need(p), m, bool(v), vis in (1, 3), vis in (2, 3)])
        elif kind == "bulk":
            _, shape, m, v, sv = op
            (t1, b1, l1), (t2, b2, l2) = bind[0], bind[1]
            if shape == 1:
                ents = [(t1, b1), (t2, b2)]
            elif shape == 2:
                ents = [(t2, b2, True), (t1, b1), (t2, b2)]
            else:
                ents = [("not-a-colour", b1, True), (t1, b1), (t2, b2, l2), (t1, b1, True)]
            for e in ents:
                lg = e[2] if len(e) == 3 else False
                keymap[apirec.krepr("pair", e[0], e[1], lg)] = (e[0], e[1], lg)
            ops.append(["bulk", [[E(x) for x in e] for e in ents], m, bool(v), bool(sv)])
        elif kind == "bulkabort":
            # a bulk call over the two pairs whose last row is malformed: it may raise - and must leave nothing behind
            _, m, v = op
            (t1, b1, l1), (t2, b2, l2) = bind[0], bind[1]
            ents = [(t1, b1), (t2, b2), (t1, b1, True)]
            for e in ents:
                lg = e[2] if len(e) == 3 else False
                keymap[apirec.krepr("pair", e[0], e[1], lg)] = (e[0], e[1], lg)
            ops.append(["bulk", [[E(x) for x in e] for e in ents], m, bool(v), False, "list", "abort"])
        elif kind == "bulkmany":
            # a bulk run over hundreds of DISTINCT pairs that all need real work (tens of thousands of colour conversions): whatever the
            # library keeps between calls has been through a long history afterwards
            r2 = random.Random(op[1])
            ents = []
            for _ in range(op[2]):
                a_, b_ = pairs.near_threshold(r2, r2.choice((4.5, 7.0)), (0.05, 0.35))
                ents.append((pairs.hexs(a_), pairs.hexs(b_)))
            ops.append(["bulk", [[E(x) for x in e] for e in ents], op[3], bool(op[4]), False])
        elif kind == "bulklong":
            # the same two pairs at 1,200 positions of one bulk list (a list long enough for any "large batch" path)
            (t1, b1, l1), (t2, b2, l2) = bind[0], bind[1]
            ents = [((t1, b1, l1) if j % 3 else (t2, b2, l2)) for j in range(1200)]
            keymap[apirec.krepr("pair", t1, b1, l1)] = (t1, b1, l1)
            keymap[apirec.krepr("pair", t2, b2, l2)] = (t2, b2, l2)
            ops.append(["bulk", [[E(x) for x in e] for e in ents], op[1], bool(op[2]), False])
        elif kind == "cli":
            k = op[1] if len(op) > 1 else 1
            ops.append(["cli", SHEET, [[], ["--default-bg", "#202020", "--premium"], ["--default-bg", "black", "--mode", "0"]][k - 1]])
    return ops, keymap


def _exec(job):
    hist, bind = job
    ops, keymap = concretise(hist, bind)
    return apirec.run_ops(ops), keymap


def needs_of(raw):
    """(keyrepr, mode, vr) triples whose result this behaviour depends on"""
    keyof = {}
    out = set()
    for e in raw:
        if e["op"] == "new" and e["raised"] == "":
            keyof[e["obj"]] = e["keyrepr"]
        elif e["op"] == "fix" and e["obj"] in keyof:
            out.add((keyof[e["obj"]], e["mode"], e["vr"]))
        elif e["op"] == "bulk":
            for x in e["entries"]:
                if x["valid"]:
                    out.add((x["keyrepr"], e["mode"], e["vr"]))
    return out


_REF = {}
_REF_LOCK = threading.Lock()


def reference(keyrepr, tbl, mode, vr, hashseed):
    k = (keyrepr, mode, vr, hashseed)
    with _REF_LOCK:
        if k in _REF:
            return _REF[k]
    t, b, lg = tbl
    # (the second reference interpreter differs in more than the hash seed: it runs with -O, i.e. without assert statements)
    raw = apirec.run_fresh([["new", 1, E(t), E(b), lg], ["fix", 1, mode, vr, False, False]], hashseed=hashseed,
                           pyflags=("-O",) if str(hashseed) == "1" else ())
    with _REF_LOCK:
        _REF[k] = raw
    return raw


def thread_history(bind_list, rnd, nthreads=4, reps=40):
    """a fixed workload from several threads; events merged in completion order"""
    vlib.use_repo()
    from cm_colors import ColorPair
    sys.setswitchinterval(1e-6)
    lock = threading.Lock()
    merged = []
    work = []
    for bnd in bind_list:
        for (t, b, lg) in bnd:
            for m in (1, 2, 0):
                for v in (False, True):
                    work.append((t, b, lg, m, v))
    rnd.shuffle(work)
    work = work[:reps]
    barrier = threading.Barrier(nthreads)
    keymap = {}
    counter = [0]

    def run(tix):
        barrier.wait()
        order = list(range(len(work)))
        random.Random(tix).shuffle(order)
        for j in order:
            t, b, lg, m, v = work[j]
            with lock:
                counter[0] += 1
                oid = counter[0]
            raw = apirec.run_ops([["new", oid, E(t), E(b), lg], ["fix", oid, m, v, False, False]], tag=f"thr{tix}")
            with lock:
                merged.extend(raw)
                keymap[apirec.krepr("pair", t, b, lg)] = (t, b, lg)

    th = [threading.Thread(target=run, args=(k,)) for k in range(nthreads)]
    for x in th:
        x.start()
    for x in th:
        x.join()
    sys.setswitchinterval(0.005)
    return merged, keymap


def main():
    t = vlib.tier()
    rnd = random.Random(vlib.seed() * 67867967 + 15)
    rep = vlib.Report(PID)
    rep.assumptions = ["TLC/SANY", "reference results come from fresh interpreter processes of the same working tree (PYTHONHASHSEED 0 and 1)",
                       "pre-emptive thread interleavings are sampled (switch interval 1e-6), not enumerated"]
    rep.rule = ("every API history of depth <= 3 over {new, readable, fix x 3 modes x 2 settings, bulk x 3 shapes, in-process CLI run} on 2 pair "
                "slots, as enumerated by TLC from ApiHist.tla (quick: a seeded sample), bound to concrete pair pairs; each merged with "
                "fresh-interpreter references; plus 4-thread workloads; distinct = distinct (history, binding)")
    rep.add_model("MC_Api(Depth=4)", vlib.check_model("MC_Api", "MC_Api.cfg", timeout=900),
                  "the library as a fixed function: MemoAgreesWithLib, BulkMatchesMemo, NoRefusal")
    r, hists = vlib.tlc_enumerate("ApiHist", "MC_ApiHist.cfg", "hist")
    rep.add_model("ApiHist(Depth=3,NP=2) history generator", r, "abstract histories replayed into the implementation")
    hists = [h for h in hists if len(h) >= 2 and any(o[0] in ("fix", "bulk") for o in h[1:])]
    rep.extra["histories_enumerated_by_tlc"] = len(hists)
    nb = 35 if t == "quick" else 60
    binds = bindings(rnd, nb)
    nh = 420 if t == "quick" else 9000
    jobs = []
    chosen = rnd.sample(hists, min(nh, len(hists)))
    for k, h in enumerate(chosen):
        jobs.append((h, binds[k % len(binds)]))
    # hand-written histories with a very long bulk list between single calls (cheap bindings only)
    for k in range(3 if t == "quick" else 12):
        bnd = [(("#777777", "#ffffff", False), ("#767676", "#ffffff", False)), (((119, 119, 119), "#ffffff", True), ("#888888", "#000000", False)),
               (("rgb(119, 119, 119)", "white", False), ("#000000", "#ffffff", True))][k % 3]
        jobs.append(((("new", 1), ("fix", 1, k % 3, False, 0), ("bulklong", k % 3, False), ("fix", 2, k % 3, False, 0), ("bulklong", k % 3, False)), bnd))
    # histories around a bulk call that is refused half-way (malformed last row): the same pairs before and afterwards, with the
    # same and with other settings, in bulk and singly
    for k in range(6 if t == "quick" else 40):
        m0, v0 = k % 3, bool(k & 1)
        m1, v1 = (k + 1) % 3, not v0
        jobs.append(((("new", 1), ("bulk", 1, m0, v0, 0), ("bulkabort", m0, v0), ("bulk", 1, m1, v1, 0), ("bulk", 2, m0, not v0, 0),
                      ("bulkabort", m1, v1), ("bulk", 1, m0, v0, 0), ("fix", 1, m1, v0, 0), ("new", 2), ("fix", 2, m0, v1, 0), ("bulk", 3, m1, v0, 0)),
                     binds[(k * 5 + 3) % len(binds)]))
    # long histories: probes, then three bulk runs over 400 distinct pairs each (some 40,000 distinct colours pass through the conversions), then the same probes again (same and new objects)
    for k in range(2 if t == "quick" else 10):
        bnd = [(("#999999", "#ffffff", False), ("#8a8a8a", "#101010", False)), (("rgb(150, 120, 90)", "#ffffff", False), ((60, 90, 160), (20, 20, 20), True))][k % 2]
        sd = rnd.randrange(1 << 30)
        jobs.append(((("new", 1), ("fix", 1, 1, False, 0), ("new", 2), ("fix", 2, 2, True, 0),
                      ("bulkmany", sd, 400, 2, True), ("bulkmany", sd + 1, 400, 2, True), ("bulkmany", sd + 2, 400, 1, False),
                      ("fix", 1, 1, False, 0), ("fix", 2, 2, True, 0), ("new", 1), ("fix", 1, 1, False, 0), ("bulk", 1, 1, False, 0)), bnd))
    results = vlib.pool_map(_exec, jobs, chunksize=6)
    # thread workloads (in this process)
    thread_runs = []
    for k in range(2 if t == "quick" else 12):
        thread_runs.append(thread_history(rnd.sample(binds, 3), rnd, reps=36 if t == "quick" else 80))
    # concurrent FIRST use of the library in fresh interpreters (lazy initialisation must not race)
    fresh_thr = []
    for k in range(6 if t == "quick" else 40):
        bnd = rnd.sample(binds, 2)
        per_thread, km = [], {}
        for tix in range(8):
            ops = []
            oid = 0
            for (tt, bb, lg) in (bnd[0] + bnd[1]):
                oid += 1
                ops.append(["new", tix * 100 + oid, E(tt), E(bb), lg])
                ops.append(["readable", tix * 100 + oid])
                ops.append(["fix", tix * 100 + oid, (tix + oid) % 3, bool(tix & 1), False, False])
                km[apirec.krepr("pair", tt, bb, lg)] = (tt, bb, lg)
            per_thread.append(ops)
        fresh_thr.append((apirec.run_fresh_threaded(per_thread, hashseed=str(k % 2)), km))
    rep.extra["fresh_interpreters_with_concurrent_first_use"] = len(fresh_thr)
    all_raw = [(raw, km) for raw, km in results] + thread_runs + fresh_thr
    # references from fresh interpreters
    need = {}
    for raw, km in all_raw:
        for (kr, m, v) in needs_of(raw):
            if kr in km:
                need[(kr, m, v)] = km[kr]
    rep.extra["fresh_interpreter_references"] = 0
    items = sorted(need.items(), key=lambda x: repr(x[0]))
    with concurrent.futures.ThreadPoolExecutor(max_workers=vlib.NCPU) as ex:
        futs = []
        for n, ((kr, m, v), tbl) in enumerate(items):
            futs.append(ex.submit(reference, kr, tbl, m, v, "0"))
            if n % 3 == 0:
                futs.append(ex.submit(reference, kr, tbl, m, v, "1"))
            if n % 3 == 1:
                futs.append(ex.submit(reference, kr, tbl, m, v, "2"))      # (hash seeds 0 and 1 order some small string sets alike; 2 does not)
        for f in futs:
            f.result()
    rep.extra["fresh_interpreter_references"] = len(_REF)
    keys, cols = apirec.Interner(), apirec.Interner()
    traces = []
    for raw, km in all_raw:
        pre = []
        oid = 100000
        for (kr, m, v) in sorted(needs_of(raw), key=repr):
            for hs in ("0", "1", "2"):
                ref = _REF.get((kr, m, v, hs))
                if ref:
                    oid += 1
                    for e in ref:
                        e2 = dict(e)
                        e2["obj"] = oid
                        e2["tag"] = "fresh-interpreter"
                        pre.append(e2)
        traces.append(apirec.to_events(pre + raw, keys, cols))
    agg = vlib.validate_traces("TrApi", traces, min_per_shard=40)
    rep.add_traces(agg, len(traces))
    rep.evaluations = sum(len(tr) for tr in traces)
    rep.nontrivial = len({(repr(h), repr(b)) for h, b in jobs}) + len(thread_runs)
    rep.extra["thread_workloads"] = len(thread_runs)
    rep.sample({"abstract_history": repr(jobs[0][0]), "binding": repr(jobs[0][1]), "events": traces[0][:6]})
    for bad in agg["bad"]:
        mine = [f for f in bad["fails"] if f.startswith("C15_") or f == "C12_BulkIsMapOfSingle"]
        if not mine:
            continue
        tid = bad["tid"]
        src = {"abstract_history": repr(jobs[tid][0]), "binding": repr(jobs[tid][1])} if tid < len(jobs) else {"thread_workload": tid - len(jobs)}
        rep.violation("/".join(mine), dict(src, behaviour=traces[tid],
                      reproduce="execute the operations of `behaviour` in order in one process (objects by `obj`), compare with the events tagged fresh-interpreter"))
    return rep.finish()


if __name__ == "__main__":
    vlib.main_wrapper(main)
