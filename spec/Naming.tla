---- MODULE Naming ----
(***************************************************************************)
(* File naming of the cm-colors command (C09 / C18): the output of         *)
(* <dir>/<name> is <dir>/<stem>_cm<suffix> with stem/suffix split at the   *)
(* LAST dot (pathlib's .stem / .suffix), and directory discovery takes     *)
(* *.css files whose name does not end in "_cm.css".  A file name is a     *)
(* sequence of dot-separated segments.  What must hold for every name:     *)
(* the output name is never itself discovered (so outputs are never        *)
(* re-consumed), differs from the input name (inputs are never             *)
(* overwritten), and distinct inputs get distinct outputs.                 *)
(* JoinAllSuffixes = TRUE is the regression "keep .min.css together"       *)
(* (stem up to the FIRST dot): TLC must reject it.                         *)
(***************************************************************************)
EXTENDS Integers, Sequences, TLC
CONSTANTS MaxSeg, JoinAllSuffixes
Segs == {"a", "a_cm", "min", "css", "x_cm"}
VARIABLE name
Init == name = <<>>
Next == Len(name) < MaxSeg /\ \E s \in Segs : name' = Append(name, s)
Spec == Init /\ [][Next]_name
IsCss(n) == Len(n) >= 2 /\ n[Len(n)] = "css"
\* "<...>_cm.css": the segment before the final "css" ends in "_cm"
EndsCm(seg) == seg \in {"a_cm", "x_cm"}
EndsWithCmCss(n) == IsCss(n) /\ EndsCm(n[Len(n) - 1])
Discovered(n) == IsCss(n) /\ ~EndsWithCmCss(n)
WithCm(seg) == IF seg = "a" THEN "a_cm" ELSE IF seg = "min" THEN "min_cm" ELSE IF seg = "a_cm" THEN "a_cm_cm"
               ELSE IF seg = "x_cm" THEN "x_cm_cm" ELSE seg \o "_cm"
\* the command's output name for input n (n ends in "css")
OutName(n) ==
  IF JoinAllSuffixes
  THEN <<WithCm(n[1])>> \o SubSeq(n, 2, Len(n))                                  \* stem = up to the first dot
  ELSE SubSeq(n, 1, Len(n) - 2) \o <<WithCm(n[Len(n) - 1])>> \o <<"css">>         \* stem = up to the last dot
OutEndsCm(n) == LET o == OutName(n) IN o[Len(o)] = "css" /\ o[Len(o) - 1] \in {"a_cm", "min_cm", "a_cm_cm", "x_cm_cm", "css_cm"}
\* invariants, for every name that can be an input (single-file invocation accepts *_cm.css too)
NeverReconsumed == IsCss(name) => OutEndsCm(name)
NeverOverwritesInput == IsCss(name) => OutName(name) # name
====
