"""C03 - a barely perceptible lightness fix, when one exists, is found and stays small.
Witness pairs from an independent scan of the text's OKLCH lightness line (harness/pairs.witness_scan);
TLC re-validates the witness' contrast with Wcag.tla and judges FindsWitnessP on every mode (TrPair.tla)."""
import os, sys
sys.path.insert(0, os.path.dirname(os.path.abspath(__file__)))
import vlib, pairchecks

if __name__ == "__main__":
    vlib.main_wrapper(lambda: pairchecks.run("C03"))
