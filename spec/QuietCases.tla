---- MODULE QuietCases ----
(***************************************************************************)
(* Generator of C17 cases (spec -> code): input spelling class x outcome   *)
(* class x mode x very_readable x large_text x visibility (0 plain, 1 show, 2 save,     *)
(* 3 both).  One state per case; the harness binds each to concrete pairs. *)
(***************************************************************************)
EXTENDS Integers
CONSTANTS Spells, Outcomes
VARIABLE c
Init == c \in [spell : Spells, outcome : Outcomes, mode : 0..2, vr : BOOLEAN, large : BOOLEAN, vis : 0..3]
Next == UNCHANGED c
Spec == Init /\ [][Next]_c
====
